#!/usr/bin/env python3
"""usage: tools/pymut.py <relative file under src/Reduino> <old> <new> -- <check args...>
Make a scratch copy of /repo/src, replace exactly one occurrence of <old> by <new>, run the project's tests
(optional, MUT_TESTS=1) and the check against the copy (REDUINO_SRC), then delete the copy."""
import os, shutil, subprocess, sys, tempfile
args = sys.argv[1:]
sep = args.index("--")
rel, old, new = args[:sep]
check_args = args[sep + 1:]
scratch = tempfile.mkdtemp(prefix="redu-mut-", dir="/tmp")
try:
    shutil.copytree("/repo/src", scratch + "/src")
    shutil.copytree("/repo/tests", scratch + "/tests")
    shutil.copy("/repo/pytest.ini", scratch + "/pytest.ini")
    p = os.path.join(scratch, "src/Reduino", rel)
    s = open(p).read()
    old = old.encode().decode("unicode_escape")
    new = new.encode().decode("unicode_escape")
    if s.count(old) != 1:
        print("pattern occurs", s.count(old), "times"); sys.exit(9)
    open(p, "w").write(s.replace(old, new))
    if os.environ.get("MUT_TESTS"):
        r = subprocess.run(["/venv/bin/python", "-m", "pytest", "-q", "-p", "no:cacheprovider", "-x"], cwd=scratch, capture_output=True, text=True)
        print("tests:", r.stdout.strip().splitlines()[-1] if r.stdout.strip() else r.stderr[-300:])
    env = dict(os.environ, REDUINO_SRC=scratch + "/src")
    r = subprocess.run(["/verif/check"] + check_args, env=env)
    print("check exit code:", r.returncode)
    sys.exit(r.returncode)
finally:
    shutil.rmtree(scratch, ignore_errors=True)
