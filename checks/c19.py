"""C19 — host actuator models keep their invariants under every operation history.

Explicit-state BFS to fixpoint over real Led / RGBLed / Servo / DCMotor objects (deep copies), every
public method x boundary / in-range / out-of-range arguments.  Invariants of the property are
evaluated in every reachable state, on every transition (also the raising ones) and on the
intermediate states seen at every sleep() of blink / fade / ramp.
"""
from __future__ import annotations

import json
import math
from typing import Any, List, Optional

from rmc import evidence, explore
from rmc.explore import Explorer, Op, StepResult
from rmc.runner import Report

ID = "C19"
LEVEL = "model_checking"
EPS = 1e-9


def _mods():
    import Reduino.Actuators as A
    import Reduino.Utils as U

    return A, U


def make_apply(sampler):
    A, U = _mods()
    real_sleep = U.sleep

    def apply(obj, op: Op) -> StepResult:
        name, args, kwargs = op
        effects: List[Any] = []

        def sleeper(seconds):
            # what time.sleep() itself does with a value it cannot wait for
            if seconds != seconds:
                raise ValueError("Invalid value NaN (not a number)")
            if seconds in (float("inf"), float("-inf")):
                raise OverflowError("timestamp too large to convert to C _PyTime_t")
            if seconds < 0:
                raise ValueError("sleep length must be non-negative")
            effects.append((seconds * 1000.0, sampler(obj)))

        def recorder(duration, **kw):
            # the real sleep validates the duration; the injected callable records it
            return real_sleep(duration, sleep_func=sleeper)

        saved = A.sleep
        A.sleep = recorder
        try:
            try:
                if name == "rewrite_angle":
                    value = obj.write(obj.read())
                elif name == "rewrite_pulse":
                    value = obj.write_us(obj.read_us())
                else:
                    value = getattr(obj, name)(*args, **kwargs)
                return StepResult(None, value, effects)
            except Exception as exc:  # noqa: BLE001 - raising transitions are part of the space
                return StepResult(exc, None, effects)
        finally:
            A.sleep = saved

    return apply


def _total(effects) -> float:
    return sum(ms for ms, _ in effects)


# ------------------------------------------------------------------------------------------
# Led
# ------------------------------------------------------------------------------------------
def led_space(tier):
    A, _ = _mods()
    vals = [-1, 0, 1, 127, 254, 255, 256, 2.5, True, 0.4, 0.999, 1e-9, -0.0, float("nan"), float("inf")] + ([64, 200, -0.5, 255.5, False, 254.999, 1.0] if tier == "thorough" else [])
    ops: List[Op] = [("on", (), {}), ("off", (), {}), ("toggle", (), {}), ("get_state", (), {}), ("get_brightness", (), {})]
    ops += [("set_brightness", (v,), {}) for v in vals]
    for d in (-1, 0, 10, 2.5, float("nan"), float("inf")):
        for t in (-1, 0, 1, 2, 3):
            ops.append(("blink", (d,), {"times": t}))
    ops.append(("blink", (7,), {}))
    steps = (-1, 0, 1, 100, 300) + ((5, 254) if tier == "thorough" else ())
    for s in steps:
        for dl in (-1, 0, 5, float("nan"), float("inf")):
            ops.append(("fade_in", (), {"step": s, "delay_ms": dl}))
            ops.append(("fade_out", (s, dl), {}))
    ops += [("fade_in", (), {}), ("fade_out", (), {})]
    for pat in ([], [1, 0], [0, 128, 1], [256], [-1], [1, 300, 0], [255], [2]):
        ops.append(("flash_pattern", (pat,), {}))
        ops.append(("flash_pattern", (pat,), {"delay_ms": 0}))
    ops.append(("flash_pattern", ([1, 0],), {"delay_ms": -5}))

    def canon(led):
        return (led.get_state(), led.get_brightness(), led.pin)

    def check_state(led) -> Optional[str]:
        b = led.get_brightness()
        if not (0 <= b <= 255):
            return f"brightness {b!r} outside 0-255"
        if bool(led.get_state()) != (b > 0):
            return f"state {led.get_state()!r} but brightness {b!r}"
        return None

    def check_step(before, led, op, res, aux) -> Optional[str]:
        name, args, kwargs = op
        after = canon(led)
        if res.exc is not None:
            if name != "flash_pattern" and after != before:
                return f"{explore.op_text(op)} raised {type(res.exc).__name__} but changed the object {before} -> {after}"
            if name == "flash_pattern" and op[2].get("delay_ms", 0) is not None and op[2].get("delay_ms", 0) < 0 and after != before:
                return f"{explore.op_text(op)} raised for an invalid scalar (delay_ms) but changed the object"
            return None
        for ms, sample in res.effects:
            st, b, _ = sample
            if not (0 <= b <= 255) or bool(st) != (b > 0):
                return f"intermediate state {sample} during {explore.op_text(op)} breaks the Led invariant"
        if name == "blink":
            d = args[0]
            t = kwargs.get("times", 1)
            if abs(_total(res.effects) - 2 * t * d) > 1e-6:
                return f"blink slept {_total(res.effects)} ms, expected exactly {2 * t * d}"
            if len(res.effects) != 2 * t:
                return f"blink made {len(res.effects)} waits, expected {2 * t}"
        if name == "fade_in":
            levels = [s[1] for _, s in res.effects] + [after[1]]
            if any(x > y for x, y in zip(levels, levels[1:])):
                return f"fade_in is not monotone: {levels}"
            if after[1] != 255:
                return f"fade_in ended at {after[1]}"
        if name == "fade_out":
            levels = [s[1] for _, s in res.effects] + [after[1]]
            if any(x < y for x, y in zip(levels, levels[1:])):
                return f"fade_out is not monotone: {levels}"
            if after[1] != 0:
                return f"fade_out ended at {after[1]}"
        return None

    return "Led", (lambda: A.Led(13)), ops, canon, check_state, check_step, None


# ------------------------------------------------------------------------------------------
# RGBLed
# ------------------------------------------------------------------------------------------
def rgb_space(tier):
    A, _ = _mods()
    comp = [-1, 0, 1, 128, 255, 256, 2.5, True]
    nan_colours = [(float("nan"), 0, 0), (0, float("inf"), 0)]
    colours = [(0, 0, 0), (255, 255, 255), (1, 128, 255), (10, 20, 30), (255, 0, 1)]
    bad = [(-1, 0, 0), (0, 256, 0), (0, 0, 2.5), (True, 0, 0), (0, 0, -1)]
    if tier == "thorough":
        colours += [(7, 7, 7), (0, 255, 0), (254, 1, 0)]
        bad += [(256, 256, 256), (0, "1", 0)]
    ops: List[Op] = [("off", (), {}), ("on", (), {}), ("get_color", (), {}), ("get_state", (), {})]
    for c in colours + bad + nan_colours:
        ops.append(("set_color", c, {}))
    for c in colours[:3] + bad[:2]:
        ops.append(("on", c, {}))
    ops.append(("on", (), {"blue": 9}))
    for c in colours + bad[:3]:
        for dur, steps in ((1000, 50), (0, 5), (100, 1), (10, 3), (-1, 5), (100, 0), (100, -2), (7.5, 4), (100, 7), (130, 50), (30, 50), (11, 7), (5, 3), (1, 2), (3, 2), (99, 100), (float("nan"), 3), (float("inf"), 3)):
            ops.append(("fade", c, {"duration_ms": dur, "steps": steps}))
    ops.append(("fade", (255, 0, 0), {"duration_ms": 130}))
    for steps in (2.5, 0.5, 7.25, 4.0, True):
        ops.append(("fade", (200, 100, 0), {"duration_ms": 20, "steps": steps}))
    ops.append(("fade", (5, 1, 3), {}))
    for c in colours[:4] + bad[:3]:
        for times, delay in ((1, 200), (2, 0), (3, 15), (0, 10), (-1, 10), (1, -1), (2, 2.5), (1, float("nan")), (2, float("inf"))):
            ops.append(("blink", c, {"times": times, "delay_ms": delay}))

    def canon(rgb):
        return (tuple(rgb.get_color()), rgb.get_state(), tuple(rgb.pins))

    def check_colour(col, state) -> Optional[str]:
        if len(col) != 3:
            return f"colour {col!r} is not a triple"
        for v in col:
            if isinstance(v, float) and not float(v).is_integer():
                return f"channel {v!r} is not an integer"
            if not (0 <= v <= 255):
                return f"channel {v!r} outside 0-255"
        if bool(state) != any(v > 0 for v in col):
            return f"state {state!r} but colour {col!r}"
        return None

    def check_state(rgb) -> Optional[str]:
        return check_colour(tuple(rgb.get_color()), rgb.get_state())

    def check_step(before, rgb, op, res, aux) -> Optional[str]:
        name, args, kwargs = op
        after = canon(rgb)
        if res.exc is not None:
            if after != before:
                return f"{explore.op_text(op)} raised {type(res.exc).__name__} but changed the object {before} -> {after}"
            return None
        for ms, sample in res.effects:
            err = check_colour(sample[0], sample[1])
            if err:
                return f"intermediate state during {explore.op_text(op)}: {err}"
        if name == "fade":
            target = tuple(int(v) for v in args)
            dur = kwargs.get("duration_ms", 1000)
            steps = kwargs.get("steps", 50)
            if after[0] != target:
                return f"fade ended on {after[0]}, target {target}"
            if _total(res.effects) > dur + 1e-6:
                return f"fade slept {_total(res.effects)} ms > requested {dur}"
            seq = [before[0]] + [s[0] for _, s in res.effects] + [after[0]]
            for ch in range(3):
                vals = [c[ch] for c in seq]
                up = target[ch] >= before[0][ch]
                if any((y < x) if up else (y > x) for x, y in zip(vals, vals[1:])):
                    return f"fade channel {ch} not monotone: {vals}"
            if res.effects and len(res.effects) != steps - 1:
                return f"fade made {len(res.effects) + 1} steps, expected {steps}"
        if name == "blink":
            times = kwargs.get("times", 1)
            delay = kwargs.get("delay_ms", 200)
            if after[0] != before[0]:
                return f"blink ended on {after[0]}, original colour {before[0]}"
            if abs(_total(res.effects) - 2 * times * delay) > 1e-6:
                return f"blink slept {_total(res.effects)} ms, expected exactly {2 * times * delay}"
        return None

    return "RGBLed", (lambda: A.RGBLed(9, 10, 11)), ops, canon, check_state, check_step, None


# ------------------------------------------------------------------------------------------
# Servo
# ------------------------------------------------------------------------------------------
SERVO_CFGS = {
    "Servo": dict(min_angle=0.0, max_angle=180.0, min_pulse_us=544.0, max_pulse_us=2400.0),
    "Servo[narrow]": dict(min_angle=10.0, max_angle=170.0, min_pulse_us=1000.0, max_pulse_us=2000.0),
    "Servo[signed]": dict(min_angle=-90.0, max_angle=90.0, min_pulse_us=544.0, max_pulse_us=2400.0),
    "Servo[negative]": dict(min_angle=-120.0, max_angle=-30.0, min_pulse_us=1000.0, max_pulse_us=2000.0),
    "Servo[positive]": dict(min_angle=45.0, max_angle=60.0, min_pulse_us=900.0, max_pulse_us=2100.0),
    # ranges whose slope is not exactly representable (the end stops must still map exactly)
    "Servo[120/1100]": dict(min_angle=0.0, max_angle=120.0, min_pulse_us=1000.0, max_pulse_us=2100.0),
    "Servo[120/900]": dict(min_angle=0.0, max_angle=120.0, min_pulse_us=900.0, max_pulse_us=2000.0),
    "Servo[170/1656]": dict(min_angle=0.0, max_angle=170.0, min_pulse_us=544.0, max_pulse_us=2200.0),
    "Servo[180/1750]": dict(min_angle=0.0, max_angle=180.0, min_pulse_us=600.0, max_pulse_us=2350.0),
    "Servo[270]": dict(min_angle=0.0, max_angle=270.0, min_pulse_us=500.0, max_pulse_us=2500.0),
    "Servo[7/3]": dict(min_angle=-3.5, max_angle=3.5, min_pulse_us=1000.0, max_pulse_us=1300.0),
}


def servo_space(tier, variant):
    A, _ = _mods()
    if variant is True:
        variant = "Servo[narrow]"
    elif variant is False:
        variant = "Servo"
    cfg = SERVO_CFGS[variant]
    narrow = variant
    lo_a, hi_a, lo_p, hi_p = cfg["min_angle"], cfg["max_angle"], cfg["min_pulse_us"], cfg["max_pulse_us"]
    nan, inf = float("nan"), float("inf")
    angles = [lo_a - 1, lo_a, lo_a + 1, (lo_a + hi_a) / 2, 33.3, hi_a - 1, hi_a, hi_a + 1, -5, 1000, True, nan, inf, -inf]
    pulses = [lo_p - 1, lo_p, lo_p + 1, (lo_p + hi_p) / 2, 1234.5, hi_p - 1, hi_p, hi_p + 1, 0, 99999, nan, inf, -inf]
    if tier == "thorough":
        angles += [lo_a + 0.1, 90, 45.5, 179.999]
        pulses += [1500, 1000.25, 2399.9]
    # rewrite_*: feed a getter's own result back (write(read()), write_us(read_us())): accepted and a no-op in every state
    ops: List[Op] = [("read", (), {}), ("read_us", (), {}), ("rewrite_angle", (), {}), ("rewrite_pulse", (), {})]
    ops += [("write", (a,), {}) for a in angles]
    ops += [("write_us", (p,), {}) for p in pulses]

    def canon(s):
        return (s.read(), s.read_us())

    def expected_pulse(angle):
        return lo_p + ((angle - lo_a) / (hi_a - lo_a)) * (hi_p - lo_p)

    def check_state(s) -> Optional[str]:
        a, p = s.read(), s.read_us()
        if not (lo_a - EPS <= a <= hi_a + EPS):
            return f"angle {a} outside [{lo_a}, {hi_a}]"
        if not (lo_p - EPS <= p <= hi_p + EPS):
            return f"pulse {p} outside [{lo_p}, {hi_p}]"
        if abs(expected_pulse(a) - p) > 1e-6 * max(1.0, abs(p)):
            return f"angle {a} and pulse {p} do not correspond under the linear map (expected pulse {expected_pulse(a)})"
        return None

    def check_step(before, s, op, res, aux) -> Optional[str]:
        name, args, _ = op
        after = canon(s)
        if res.exc is not None:
            if name.startswith("rewrite"):
                return f"{name}: the servo refuses the value its own getter returned ({type(res.exc).__name__}: {res.exc}) in state {before}"
            if after != before:
                return f"{explore.op_text(op)} raised but changed the object {before} -> {after}"
            return None
        if name == "write" and abs(s.read() - float(args[0])) > EPS:
            return f"write({args[0]}) then read() == {s.read()}"
        if name == "write_us" and abs(s.read_us() - float(args[0])) > EPS:
            return f"write_us({args[0]}) then read_us() == {s.read_us()}"
        if name in ("read", "read_us") and after != before:
            return f"{name}() changed the object"
        if name.startswith("rewrite") and (abs(after[0] - before[0]) > 1e-9 or abs(after[1] - before[1]) > 1e-6):
            return f"feeding {name[8:]} back through its own setter moved the servo {before} -> {after}"
        return None

    return variant, (lambda: A.Servo(9, **cfg)), ops, canon, check_state, check_step, None


# ------------------------------------------------------------------------------------------
# DCMotor
# ------------------------------------------------------------------------------------------
def motor_space(tier):
    A, _ = _mods()
    speeds = [-2, -1, -0.5, 0, 0.25, 1, 3, True, "x", 0.003, -0.001, 1 / 256, float("nan"), float("inf")]
    if tier == "thorough":
        speeds += [0.999, -0.001, 1e-9, None]
    ops: List[Op] = [("stop", (), {}), ("coast", (), {}), ("invert", (), {}), ("get_speed", (), {}), ("get_mode", (), {}),
                     ("get_applied_speed", (), {}), ("is_inverted", (), {})]
    ops += [("set_speed", (v,), {}) for v in speeds]
    ops += [("backward", (v,), {}) for v in speeds[:8] + [0.001, float("nan")]] + [("backward", (), {})]
    ops += [("ramp", (0.002, 40), {}), ("ramp", (float("nan"), 40), {}), ("run_for", (10, 0.002), {})]
    for tgt in (-2, -1, 0, 0.5, 1, "x"):
        for dur in (-1, 0, 100, 33, 5, 0.5, 19, 19.99, True, 20, float("nan"), float("inf")):
            ops.append(("ramp", (tgt, dur), {}))
    for dur in (-1, 0, 50, 2.5, float("nan"), float("inf")):
        for sp in (-1, 0, 0.5, 2, "x"):
            ops.append(("run_for", (dur, sp), {}))

    def canon(m):
        return (m.get_speed(), m.get_applied_speed(), bool(m.is_inverted()), m.get_mode())

    def check_state(m) -> Optional[str]:
        sp, ap, inv, mode = canon(m)
        if not (abs(sp) <= 1.0):
            return f"|speed| = {abs(sp)} > 1"
        want = -sp if inv else sp
        if ap != want:
            return f"applied speed {ap} but speed {sp} inverted={inv}"
        if (mode == "drive") != (ap != 0):
            return f"mode {mode!r} with applied speed {ap}"
        if mode not in ("drive", "brake", "coast"):
            return f"unknown mode {mode!r}"
        return None

    def aux_init():
        return "other"

    def aux_step(aux, op, res):
        if res.exc is not None:
            return aux
        if op[0] in ("stop", "run_for"):
            return "brake"
        if op[0].startswith("get_") or op[0] == "is_inverted":
            return aux
        return "other"

    def check_step(before, m, op, res, aux) -> Optional[str]:
        name, args, kwargs = op
        after = canon(m)
        if res.exc is not None:
            if after != before:
                return f"{explore.op_text(op)} raised {type(res.exc).__name__} but changed the object {before} -> {after}"
            return None
        new_aux = aux_step(aux, op, res)
        sp, ap, inv, mode = after
        if ap == 0:
            want_mode = "brake" if new_aux == "brake" else "coast"
            if mode != want_mode:
                return f"after {explore.op_text(op)} the idle mode is {mode!r}, expected {want_mode!r}"
        for ms, sample in res.effects:
            s_sp, s_ap, s_inv, s_mode = sample
            if abs(s_sp) > 1.0 or s_ap != (-s_sp if s_inv else s_sp) or (s_mode == "drive") != (s_ap != 0):
                return f"intermediate state {sample} during {explore.op_text(op)} breaks the motor invariant"
        if name == "invert":
            if inv == before[2]:
                return "invert() did not toggle"
        if name == "ramp":
            target = max(-1.0, min(1.0, float(args[0])))
            dur = args[1]
            if abs(sp - target) > 1e-9:
                return f"ramp ended at {sp}, clamped target {target}"
            if _total(res.effects) > dur + 1e-6:
                return f"ramp slept {_total(res.effects)} ms > requested {dur}"
            if dur > 0:
                seq = [before[0]] + [s[0] for _, s in res.effects]
                up = target >= before[0]
                if any((y < x - 1e-12) if up else (y > x + 1e-12) for x, y in zip(seq, seq[1:])):
                    return f"ramp not monotone: {seq}"
                if len(res.effects) != 20:
                    return f"ramp made {len(res.effects)} steps, expected 20"
        if name == "run_for":
            if abs(_total(res.effects) - args[0]) > 1e-6:
                return f"run_for slept {_total(res.effects)} ms, expected exactly {args[0]}"
            if mode != "brake" or sp != 0:
                return f"run_for ended in mode {mode!r} speed {sp}"
        return None

    return "DCMotor", (lambda: A.DCMotor(4, 5, 6)), ops, canon, check_state, check_step, (aux_init, aux_step, lambda a: a)


def spaces(tier):
    return [led_space(tier), rgb_space(tier)] + [servo_space(tier, v) for v in SERVO_CFGS] + [motor_space(tier)]


def _ops_to_json(history):
    return [[name, list(args), kwargs] for name, args, kwargs in history]


def _build(space):
    subject, make, ops, canon, check_state, check_step, aux = space
    kwargs = {}
    if aux:
        kwargs = dict(aux_init=aux[0], aux_step=aux[1], aux_canon=aux[2])
    return Explorer(subject, make, ops, canon, make_apply(canon), check_state, check_step, **kwargs)


def main(tier: str, seed: int, only=None) -> int:
    report = Report(ID, LEVEL, tier, seed)
    totals = {}
    for space in spaces(tier):
        subject = space[0]
        if only and subject not in only:
            continue
        ex = _build(space)
        st = ex.run()
        totals[subject] = {"states": st.states, "transitions": st.transitions, "raising": st.raising_transitions,
                           "max_depth": st.max_depth, "fixpoint": st.fixpoint, "distinct_outcomes": st.distinct_outcomes,
                           "alphabet": len(ex.ops)}
        report.evaluations += st.transitions
        report.transitions += st.transitions
        report.traces_validated += st.transitions
        for i in range(st.states):
            report.states.add((subject, i))
        for i in range(st.distinct_outcomes):
            report.distinct.add((subject, i))
        if not st.fixpoint:
            report.caps_hit.append(f"{subject}: state cap reached before the frontier emptied")
        for s in ex.samples[:2]:
            report.add_sample({"subject": subject, "history": s})
        for v in ex.violations:
            key = explore.history_key(ID, v.subject, v.history)
            summary = f"{v.subject}: {' ; '.join(explore.op_text(o) for o in v.history)} -> {v.message}"
            report.violation(key, summary, {"subject": v.subject, "history": _ops_to_json(v.history), "message": v.message})
        report.outcomes[f"{subject}:states"] = st.states
    report.extra_cov["per_class"] = totals
    report.bounds = {"search": "BFS to fixpoint over all reachable states under the alphabets listed per class", "alphabet_sizes": {k: v["alphabet"] for k, v in totals.items()}}
    return report.finish(
        rule="explicit-state BFS on real objects; a transition = one public method call with one argument tuple; distinct = distinct (outcome kind, successor state) pairs",
        assumptions=["sleep durations are observed through the package-level Reduino.Actuators.sleep indirection (the seam the test-suite itself uses)",
                     "state = public getters only; two objects with equal getters are considered the same state"],
    )


def replay(path: str) -> int:
    data = json.loads(open(path).read())
    subject = data["subject"]
    tier = "thorough"
    for space in spaces(tier):
        if space[0] != subject:
            continue
        ex = _build(space)
        history = [(n, tuple(a), dict(k)) for n, a, k in data["history"]]
        verdicts = []
        for _ in range(2):
            obj = space[1]()
            aux = space[6][0]() if space[6] else None
            err = None
            for op in history:
                before = ex.canon(obj)
                res = ex.apply(obj, op)
                err = ex.check_step(before, obj, op, res, aux) or ex.check_state(obj)
                if space[6]:
                    aux = space[6][1](aux, op, res)
                if err:
                    break
            verdicts.append(err)
        if verdicts[0] != verdicts[1]:
            print("REPLAY-DIVERGENCE", verdicts)
            return 2
        print("replay:", verdicts[0])
        if verdicts[0]:
            print(f"VIOLATION property={ID} replay={path}")
            return 1
        return 0
    print("unknown subject", subject)
    return 2
