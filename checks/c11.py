"""C11 — transpiling never runs user code, has no side effects, fails only cleanly.

Inputs (all enumerated, none sampled):
  (1) hostile and expensive expressions in EVERY argument position of the device catalogue and in every
      language position (condition, range bound, list item, f-string, decorator, default, subscript, ...);
  (2) one script per Python statement / expression kind in every scope;
  (3) noise: every string of length <= 3 (quick; <= 4 for whole files in thorough) over a 20-symbol
      structural alphabet, as a whole file, as a line inside each block kind and as an argument text.
Every input is transpiled in an isolated child interpreter under sys.addaudithook with a hard wall-clock
limit and an address-space limit.  Oracle: outcome in {text, ValueError, SyntaxError (only for text CPython
itself rejects)}; no exec / open / process / network / import event; canary untouched; prompt; module
state fingerprint unchanged.
"""
from __future__ import annotations

import ast
import itertools
import json
import os
from pathlib import Path
from typing import Dict, Iterator, List, Optional

from rmc import explore, sandbox
from rmc.runner import Report

ID = "C11"
LEVEL = "exploration"
ROOT = Path(__file__).resolve().parent.parent
CANARY = "/verif/build/c11-canary"
TIME_LIMIT = 2.0    # CPU seconds one transpilation may take
HARD_KILL_S = 20.0  # wall-clock seconds after which the child interpreter is killed (reported as 'timeout')

IMPORTS = (
    "from Reduino import target\n"
    'target("COM3")\n'
    "from Reduino.Actuators import Led, RGBLed, Servo, DCMotor, Buzzer\n"
    "from Reduino.Sensors import Button, Potentiometer, Ultrasonic\n"
    "from Reduino.Displays import LCD\n"
    "from Reduino.Communication import SerialMonitor\n"
    "from Reduino.Core import pin_mode, digital_write, analog_read, OUTPUT\n"
    "from Reduino.Utils import sleep\n"
)
DECLS = (
    "mon = SerialMonitor(9600)\nled = Led(13)\nrgb = RGBLed(3, 5, 6)\nsv = Servo(9)\nm = DCMotor(22, 23, 24)\nbz = Buzzer(8)\n"
    "lcd = LCD(rs=30, en=31, d4=32, d5=33, d6=34, d7=35, backlight_pin=10)\nitems = [1, 2]\ny = [1, 2, 3]\nq = 2\n"
)

HOSTILE = [
    f"__import__('os').system('touch {CANARY}')",
    f"open('{CANARY}', 'w').write('x')",
    f"eval(\"open('{CANARY}', 'w')\")",
    "exec('import os')",
    f"(lambda: open('{CANARY}', 'w'))()",
    "().__class__.__base__.__subclasses__()",
    "[c for c in ().__class__.__base__.__subclasses__() if c.__name__ == 'Popen']",
    "(w := 5)",
    "f\"{__import__('os').getcwd()}\"",
    f"getattr(__builtins__, 'open')('{CANARY}', 'w')",
    f"__import__('subprocess').run(['touch', '{CANARY}'])",
    "type('X', (), {})()",
    "globals()",
    "compile('1', 'f', 'eval')",
    "__import__('socket').socket()",
    "[1, 0] * 3",
]
EXPENSIVE = [
    "9**9**9", "10**10**10", "1 << 10**10", "'a' * 10**9", "[0] * 10**9", "pow(9, 10**9)", "pow(3, 400000000)", "2**2**2**2**2**2",
    "int('9' * 10**7)", "abs(-(9**9**9))", "max(9**9**9, 1)", "len('a' * 10**9)", "str(10**10**5)", "float('1e999')", "1e999", "-1e999",
    "1e999 - 1e999", "7 // 0", "7 % 0", "7 / 0", "2.0 ** 100000", "(2**4000) * (2**4000) * (2**4000)", "-(2**63) - 1", "1_000_000 * 1_000_000 * 1_000_000", "0.1 + 0.2", "True + True",
    # integers that fold but do not fit a double / a C integer
    "2**2000", "-(2**2000)", "10**400", "2**1024", "2**1023 * 2", "2**64", "-(2**64)", "2**31", "1e308 * 10", "10**400 / 10**399", "10**400 // 1", "float(10**400)", "int(1e308) * 10",
]

# name-free constant expressions that are ill-typed on the host: folding them must end in firmware text or ValueError
ILL_TYPED = ["255 >> 1.0", "255 & 0.5", "max(3, '4')", "-'440'", "10 if 'a' < 1 else 20", "1.5 << 2", "1 < 'a'", "min([1], 2)", "2.5 | 1", "'a' * 'b'", "[1] + 1", "None + 1", "len(5)", "abs('x')",
             "int([1])", "float('x')", "int('x')", "1 // '2'", "round(1, 'a')", "~1.5", "+'a'", "not_defined_name_", "(1, 2) + 3", "{}[0]", "[][0]", "''[1]", "int(None)", "divmod(1, 0)"]

POSITIONS = [
    "led2 = Led({E})", "sv2 = Servo({E})", "b2 = Button({E})", "m2 = DCMotor({E}, 3, 4)", "u2 = Ultrasonic({E}, 3)", "u3 = Ultrasonic(2, 3, sensor={E})", "bz2 = Buzzer({E})",
    "bz3 = Buzzer(8, default_frequency={E})", "lcd2 = LCD(i2c_addr={E})", "lcd3 = LCD(rs={E}, en=1, d4=2, d5=3, d6=4, d7=5)", "lcd4 = LCD(i2c_addr=39, cols={E})", "mon2 = SerialMonitor({E})",
    "pot2 = Potentiometer({E})", "sv3 = Servo(9, min_angle={E})", "rgb2 = RGBLed(1, {E}, 3)",
    "led.set_brightness({E})", "led.blink({E})", "led.blink(5, times={E})", "led.fade_in({E})", "led.fade_out(5, {E})", "led.flash_pattern({E})", "led.flash_pattern([1, 0], {E})",
    "rgb.set_color({E}, 1, 2)", "rgb.on({E})", "rgb.fade(1, 2, 3, {E})", "rgb.fade(1, 2, 3, 10, {E})", "rgb.blink(1, 2, 3, {E})",
    "sv.write({E})", "sv.write_us({E})", "m.set_speed({E})", "m.backward({E})", "m.ramp({E}, 10)", "m.ramp(1, {E})", "m.run_for({E}, 1)",
    "bz.play_tone({E})", "bz.play_tone(440, {E})", "bz.beep({E})", "bz.beep(440, times={E})", "bz.sweep(1, 2, {E})", "bz.sweep(1, 2, 3, steps={E})", "bz.melody({E})", "bz.melody(\"siren\", {E})",
    "lcd.write({E}, 0, \"x\")", "lcd.write(0, {E}, \"x\")", "lcd.write(0, 0, {E})", "lcd.write(0, 0, \"x\", clear_row={E})", "lcd.write(0, 0, \"x\", align={E})", "lcd.line(0, {E})", "lcd.message({E})",
    "lcd.glyph(0, {E})", "lcd.glyph({E}, [1, 2, 3, 4, 5, 6, 7, 8])", "lcd.progress(0, {E})", "lcd.progress(0, 5, max_value={E})", "lcd.progress(0, 5, width={E})", "lcd.progress(0, 5, style={E})",
    "lcd.animate(\"scroll\", 0, \"t\", speed_ms={E})", "lcd.animate({E}, 0, \"t\")", "lcd.animate(\"blink\", 0, {E})", "lcd.animate(\"blink\", 0, \"t\", loop={E})", "lcd.brightness({E})", "lcd.display({E})", "lcd.backlight({E})",
    "sleep({E})", "mon.write({E})", "pin_mode({E}, OUTPUT)", "digital_write(3, {E})", "x = analog_read({E})",
    "x = {E}", "x, z = {E}, 1", "q += {E}", "if {E}:\n    q = 1", "if q:\n    q = 1\nelif {E}:\n    q = 2", "while {E}:\n    break", "for i in range({E}):\n    q = i", "items = [{E}, 1]", "items.append({E})", "items.remove({E})",
    "mon.write(f\"{{{E}}}\")", "def f1(p={E}):\n    return p", "@{E}\ndef f2():\n    return 1", "x = y[{E}]", "def f3():\n    return {E}\nx = f3()", "x = [{E} for i in range(2)]", "x = abs({E})", "x = len({E})",
    "while True:\n    sleep({E})", "while True:\n    x = {E}",
    # keyword spellings (those of the host signatures and those only the transpiler knows)
    "sv.write_us(pulse={E})", "sv.write_us(pulse_us={E})", "m.set_speed(value={E})", "m.set_speed(speed={E})", "bz.melody(name={E})", "bz.melody(melody={E})", "u4 = Ultrasonic(2, 3, model={E})",
    "mon3 = SerialMonitor(baud_rate={E})", "mon3 = SerialMonitor(baud={E})", "sleep(duration={E})", "sleep(ms={E})", "sv.write(angle={E})", "led.blink(duration_ms={E})", "bz.play_tone(frequency={E})",
    "rgb.on(red={E})", "lcd.line(row=0, text={E})", "lcd.nosuch_keyword(zz={E})", "led.toggle(extra={E})",
]
# ordinary argument values: every position is also transpiled with each of these (twice in one interpreter by the worker)
PLAIN = ["5", "1500", "0.5", "q", "\"siren\"", "True", "q + 1", "[1, 0]", "None"]

STATEMENTS = [
    "from Reduino_boards.uno import LED_PIN", "from Reduino_boards import uno", "import Reduino_boards.uno", "from Reduinox.y import z", "from Reduino.nosuch.deep import thing", "from Reduino.Actuators.nosuch import Led2",
    "import Reduino_boards", "from . import sibling", "from .pkg import name", "from __future__ import annotations", "import antigravity", "from this import s", "import Reduino.Actuators.Led as L",
    "del q", "assert q", "raise ValueError(\"x\")", "with open(\"f\") as fh:\n    pass", "async def af():\n    pass", "class A:\n    pass", "fn = lambda v: v", "def g():\n    yield 1",
    "try:\n    q = 1\nfinally:\n    q = 2", "import os", "from os import path", "import os as o, sys", "global q", "match q:\n    case 1:\n        pass", "n: int = 5", "a1 = a2 = 3", "y[0] = 1", "led.pin = 1",
    "*a3, a4 = 1, 2, 3", "print(\"x\")", "pass", "...", "\"docstring\"", "x = [1, 2][0]", "x = {1: 2}", "x = {1, 2}", "x = (1, 2)", "x = 1 if q else 2", "x = not q", "x = -q", "x = q @ q", "x = q is None", "x = q in y",
    "x = 1 < q < 3", "x = y[1:2]", "x = f\"{q!r:>10}\"", "x = b\"bytes\"", "x = 1j", "x = None", "x = ...", "led.nosuch()", "nosuch.toggle()", "continue", "break", "return 5", "x = q if q else led", "q: int",
    # argument unpacking in every kind of call, as a statement and inside expressions
    "x = digital_read(3, **opts)", "x = analog_read(*args)", "pin_mode(**kw)", "digital_write(3, **kw)", "analog_write(*args, **kw)", "led.blink(**kw)", "led.blink(*args)", "sleep(*args)", "mon.write(*args)",
    "rgb.on(**{\"red\": 10})", "x = fn0(*args)", "x = fn0(**kw)", "if digital_read(3, **opts):\n    q = 1", "while analog_read(1, **opts) > 3:\n    q = 1", "sleep(analog_read(1, **opts))", "led.set_brightness(analog_read(*args))",
    "x = [digital_read(2, **opts)]", "mon.write(f\"{digital_read(2, **opts)}\")", "x = digital_read(3, nosuch=1)", "x = digital_read(pin=3, pin2=4)", "x = analog_read(3, **opts, **kw)", "x = digital_read(*args, pin=3, **kw)",
    "lcd.line(0, \"target(COM9)\")", "mon.write(\"target('COM9')\")", "x = \"target(COM9)\"", "# target(\"COM9\")", "port = target(\"COM9\")",
    "for i in y:\n    q = i", "for i, j in [(1, 2)]:\n    q = i", "while q < 3:\n    q += 1\nelse:\n    q = 0", "x = (yield)", "x = await q", "nonlocal q", "x = q.real", "x = str(q).upper()", "x = \"a\" \"b\"",
]
SCOPES = [
    "{S}", "if q:\n{I}", "if q:\n    q = 1\nelse:\n{I}", "while q < 3:\n    q += 1\n{I}", "for i in range(2):\n{I}", "def fn1():\n{I}\n    return 1", "while True:\n{I}", "while True:\n    if q:\n{II}", "try:\n{I}\nexcept Exception:\n    q = 0",
]

# long / repetitive texts that stress the line-oriented regexes and the recursive descent of every parser involved
_DOTTED = ".".join(["pkg", "errors", "exceptions", "transport", "serial"] * 6) + ".DeviceNotRespondingError"
STRESS = [
    _DOTTED, _DOTTED + " or TimeoutError", _DOTTED + "() as err2", _DOTTED + ", " + _DOTTED, "(" + _DOTTED + ", ValueError)", _DOTTED + "[0]", _DOTTED + " if q else " + _DOTTED,
    "a" * 5000, "a " * 2000, "a, " * 1500 + "a", "a." * 400 + "a", "(" * 40 + "1" + ")" * 40, "[" * 40 + "1" + "]" * 40, '"' + "a" * 20000 + '"', "'" + "\\'" * 500 + "'",
    "q" + " and q" * 800, "-" * 3000 + "1", "-" * 100000 + "1", "not " * 1000 + "q", "q" + " if q else q" * 300, "q" + ".real" * 600, "q" + "[0]" * 600, "f(" * 100 + "1" + ")" * 100,
    "q" + " " * 80000 + "+ 1", "q +" + " " * 80000 + "1", "(q" + " " * 80000 + ")", "a." * 3000 + "a", "a" + "\t" * 60000,
    "lambda: " * 200 + "1", "1" + " < 2" * 1500, "q" + " " * 20000 + "+ 1", "q" + "\t" * 5000 + "+ 1", "1 +" + " \\\n" * 300 + "1", "x" * 200 + "=" * 200, ":" * 300, "#" * 5000, "1" + "e1" * 300,
    "\"" * 999, "'" * 999, "f\"" + "{q}" * 2000 + "\"", "f\"" + "{" * 60 + "q" + "}" * 60 + "\"", "q" + " == q" * 1000, "*" * 500 + "q", "~" * 5000 + "1", "q" + ",q" * 5000,
]
STRESS_POSITIONS = [
    "if {X}:\n    q = 1", "if q:\n    q = 1\nelif {X}:\n    q = 2", "while {X}:\n    q = 1\n    break", "for i in range({X}):\n    q = i", "for {X} in range(2):\n    q = 1",
    "try:\n    q = 1\nexcept {X}:\n    q = 2", "try:\n    q = 1\nexcept {X} as err:\n    q = 2", "def fq({X}):\n    return 1", "def {X}():\n    return 1", "led.blink({X})", "x = {X}", "{X} = 1",
    "target({X})", "{X}", "# {X}", "q = 1  # {X}", "from {X} import y", "import {X}", "class {X}:\n    pass", "global {X}", "return {X}", "led.{X}()", "{X}.toggle()", "sv2 = Servo({X})", "lcd.line(0, {X})",
    "while True:\n    {X}", "x = [{X}]", "x = y[{X}]", "with {X}:\n    pass", "@{X}\ndef fd():\n    return 1", "del {X}", "assert {X}", "x: {X} = 1",
]

NOISE_ALPHABET = ["(", ")", "[", "]", "{", "}", ":", "=", ",", ".", "'", '"', "#", "\\", " ", "\t", "\n", "a", "1", "f"]


def _indent(text: str, n: int) -> str:
    pad = "    " * n
    return "\n".join(pad + ln if ln else ln for ln in text.split("\n"))


def gen(tier: str) -> Iterator[dict]:
    base = IMPORTS + DECLS
    for pi, pos in enumerate(POSITIONS):
        for ei, expr in enumerate(HOSTILE + EXPENSIVE):
            yield {"id": f"X:{pi}:{ei}", "kind": "hostile" if ei < len(HOSTILE) else "expensive", "src": base + pos.replace("{E}", expr) + "\n"}
        for ei, expr in enumerate(ILL_TYPED):
            yield {"id": f"T:{pi}:{ei}", "kind": "illtyped", "src": base + pos.replace("{E}", expr) + "\n"}
            yield {"id": f"T:{pi}:{ei}:list", "kind": "illtyped", "src": base + pos.replace("{E}", "[" + expr + "]") + "\n"}
        for ei, expr in enumerate(PLAIN):
            yield {"id": f"P:{pi}:{ei}", "kind": "plain", "src": base + pos.replace("{E}", expr) + "\n"}
        for ei, expr in enumerate(EXPENSIVE):
            yield {"id": f"XL:{pi}:{ei}", "kind": "expensive", "src": base + pos.replace("{E}", "[" + expr + "]") + "\n"}
    for si, stmt in enumerate(STATEMENTS):
        for ci, scope in enumerate(SCOPES):
            body = scope.replace("{S}", stmt).replace("{I}", _indent(stmt, 1)).replace("{II}", _indent(stmt, 2))
            yield {"id": f"S:{si}:{ci}", "kind": "statement", "src": base + body + "\n"}
    growth = {
        "square": "a = 2 ** 2000\n" + "a = a * a\n" * 30 + "sleep(a)\n",
        "strdouble": "s = \"ab\"\n" + "s = s + s\n" * 40 + "mon.write(s)\n",
        "fstring": "s = \"ab\"\n" + "s = f\"{s}{s}\"\n" * 40 + "mon.write(s)\n",
        "addchain": "a = 10 ** 1200\n" + "a = a + a\n" * 200 + "sleep(a)\n",
        "tuplegrow": "a, b = 3 ** 2000, 5 ** 1700\n" + "a, b = a * b, b * a\n" * 25 + "sleep(a)\n",
        "listgrow": "items.append(2 ** 4000)\n" * 50 + "mon.write(len(items))\n",
        "deepsum": "x = " + "+".join(["1"] * 3000) + "\n",
        "deepparen": "x = " + "(" * 150 + "1" + ")" * 150 + "\n",
        "deepnest": "".join("    " * i + "if q:\n" for i in range(60)) + "    " * 60 + "q = 1\n",
        "longline": "x = [" + ", ".join(["1"] * 20000) + "]\n",
        "manylines": "q = q + 1\n" * 5000,
        # constants built from earlier constants: shared structure that a later fold or print must not expand
        "listdag": "x0 = [1, 1]\n" + "".join(f"x{i + 1} = [x{i}, x{i}]\n" for i in range(40)) + "lab = f\"{x40}\"\nmon.write(lab)\n",
        "listdag_str": "x0 = [1, 1]\n" + "".join(f"x{i + 1} = [x{i}, x{i}]\n" for i in range(40)) + "mon.write(str(x40))\nmon.write(len(x40))\n",
        "listdag_plus": "x0 = [1, 1]\n" + "".join(f"x{i + 1} = x{i} + x{i}\n" for i in range(40)) + "mon.write(len(x40))\n",
        "listdag_mul": "x0 = [1, 1]\n" + "".join(f"x{i + 1} = x{i} * 2\n" for i in range(40)) + "mon.write(len(x40))\n",
        "tupledag": "t0 = (1, 1)\n" + "".join(f"t{i + 1} = (t{i}, t{i})\n" for i in range(40)) + "mon.write(f\"{t40}\")\n",
        "strdag": "s0 = \"ab\"\n" + "".join(f"s{i + 1} = s{i} + s{i}\n" for i in range(40)) + "mon.write(s40)\nmon.write(len(s40))\n",
        "fstrdag": "s0 = \"ab\"\n" + "".join(f"s{i + 1} = f\"{{s{i}}}-{{s{i}}}\"\n" for i in range(40)) + "lcd.line(0, s40)\n",
        "helperdag": "".join(f"def h{i}(v):\n    return " + (f"h{i - 1}(v) + h{i - 1}(v)" if i else "v + 1") + "\n" for i in range(40)) + "mon.write(h39(1))\n",
        "condchain": "x = " + " < ".join(["q"] * 40) + "\n",
        "nestedcmp": "x = " + "(" * 12 + "1 < q < 3" + " < 3)" * 12 + "\n",
        "nestedcmp_mid": "x = " + "(1 < " * 30 + "q" + " < 3)" * 30 + "\n",
        "nestedcmp_mid_loop": "while True:\n    if " + "(1 < " * 30 + "analog_read(3)" + " < 3)" * 30 + ":\n        q = 1\n",
        "nested_ifexp": "x = " + "(q if q else " * 30 + "q" + ")" * 30 + "\n",
        "nested_minmax": "x = " + "max(q, min(q, " * 25 + "q" + "))" * 25 + "\n",
        "nested_abs": "x = " + "abs(" * 60 + "q" + ")" * 60 + "\n",
        "nested_fstr": "s9 = " + "f\"{" * 1 + "q" + "}\"" * 1 + "\n" + "".join(f"s{10 + i} = f\"{{s{9 + i}}}{{s{9 + i}}}\"\n" for i in range(30)),
        "nested_index": "x = " + "y[" * 40 + "0" + "]" * 40 + "\n",
        # long concatenations / sums: every operand is rendered once
        "concat_names": "s = str(q)\nmon.write(" + " + ".join(["s", "\"1\""] * 30) + ")\n",
        "concat_literals": "s = str(q)\nx = " + " + ".join(["\"ab\""] * 60) + " + s\n",
        "concat_fstrings": "s = str(q)\nx = " + " + ".join(["f\"{q}\"", "s"] * 25) + "\n",
        "concat_calls": "def nm(v):\n    return str(v)\nx = " + " + ".join(["nm(q)", "\"-\""] * 25) + "\n",
        "sum_names": "x = " + " + ".join(["q", "2"] * 150) + "\n",
        "sum_floats": "g = q * 0.5\nx = " + " + ".join(["g", "q", "1.5"] * 80) + "\n",
        "cmp_chain_names": "x = " + " < ".join(["q"] * 60) + "\n",
        "and_chain_values": "x = " + " and ".join(["q", "2"] * 40) + "\n",
        "or_chain_values": "x = " + " or ".join(["q", "0"] * 40) + "\n",
        "ifexp_chain": "x = " + " ".join(["1 if q > %d else" % i for i in range(60)]) + " 0\n",
        "nested_call": "def idf(v):\n    return v\nx = " + "idf(" * 60 + "q" + ")" * 60 + "\n",
    }
    for name, body in growth.items():
        yield {"id": f"G:{name}", "kind": "growth", "src": base + body}
    # build directives that mention the host: the result may not depend on HOME / the user database / the cwd
    ports = ["~", "~/dev/ttyUSB0", "~root/dev/tty", "~nosuchuser/x", "$HOME/tty", "${HOME}/tty", "%TEMP%", "./tty", "../tty", "tty", "/dev/~", "~~", "COM3"]
    for qi, port in enumerate(ports):
        for fi, form in enumerate(('target("{P}")', 'target(port="{P}")', "target('{P}')", 'target("{P}", upload=False)', 'x = 1\ntarget("{P}")', 'led3 = Led(13)  # target("{P}")')):
            yield {"id": f"E:{qi}:{fi}", "kind": "env", "env_probe": True, "src": "from Reduino import target\n" + form.replace("{P}", port) + "\nfrom Reduino.Actuators import Led\nled = Led(13)\nled.on()\n"}
    for pi, pos in enumerate(STRESS_POSITIONS):
        for xi, text in enumerate(STRESS):
            yield {"id": f"R:{pi}:{xi}", "kind": "stress", "src": base + pos.replace("{X}", text) + "\n"}
    whole = 4 if tier == "thorough" else 3
    inner = 3 if tier == "thorough" else 2
    for n in range(1, whole + 1):
        for tup in itertools.product(NOISE_ALPHABET, repeat=n):
            yield {"id": f"N:file:{n}:{len(tup)}", "kind": "noise", "src": "".join(tup)}
    wrappers = ["if q:\n    {N}\n", "while True:\n    {N}\n", "def fz():\n    {N}\n", "for i in range(2):\n    {N}\n", "try:\n    {N}\nexcept Exception:\n    q = 0\n", "led.blink({N})\n", "x = {N}\n", "mon.write({N})\n"]
    for n in range(1, inner + 1):
        for tup in itertools.product(NOISE_ALPHABET, repeat=n):
            text = "".join(tup)
            for wi, w in enumerate(wrappers):
                yield {"id": f"N:w{wi}:{n}", "kind": "noise", "src": base + w.replace("{N}", text)}


def classify(case: dict, rec: dict) -> Optional[str]:
    out = rec["outcome"]
    if out == "timeout":
        return f"transpilation did not finish within the hard limit ({rec.get('detail')})"
    if out == "child_died":
        return f"interpreter died ({rec.get('detail')})"
    if out == "crash":
        return f"internal error instead of ValueError/SyntaxError: {rec.get('detail')}"
    if out == "SyntaxError":
        try:
            ast.parse(case["src"])
        except (SyntaxError, ValueError, RecursionError, MemoryError):
            pass
        else:
            return f"SyntaxError raised for text that IS valid Python: {rec.get('detail')}"
    if rec.get("events"):
        return f"host-side effect / user code execution during transpilation: {rec['events']}"
    # "promptly" is judged on the CPU time of the transpilation itself (the wall clock of a loaded machine is not the
    # transpiler's doing); the wall clock only bounds the hard kill
    if rec.get("cpu", rec.get("wall", 0)) > TIME_LIMIT:
        return f"took {rec.get('cpu', rec.get('wall'))}s of CPU time (> {TIME_LIMIT}s)"
    if rec.get("state_changed"):
        return "module-level state of the transpiler changed"
    if rec.get("env_dependent"):
        return f"the result depends on / the run changed the host environment: {rec['env_dependent']}"
    return None


def main(tier: str, seed: int, only=None) -> int:
    report = Report(ID, LEVEL, tier, seed)
    (ROOT / "build").mkdir(exist_ok=True)
    if os.path.exists(CANARY):
        os.unlink(CANARY)
    cases = list(gen(tier))
    if only:
        cases = [c for c in cases if c["id"].split(":")[0] in only]
    by_id: Dict[str, dict] = {}
    for i, c in enumerate(cases):
        c["id"] = f"{c['id']}#{i}"
        by_id[c["id"]] = c
    results = sandbox.run("checks.c11_worker", cases, lanes=14, timeout=HARD_KILL_S, mem_mb=3072)
    for rec in results:
        case = by_id[rec["id"]]
        report.evaluations += 1
        report.outcomes[rec["outcome"]] += 1
        report.outcomes["kind:" + case["kind"]] += 1
        report.distinct.add((rec["outcome"], case["src"]))
        err = classify(case, rec)
        if err:
            key = explore.history_key(ID, "input", [("src", (case["src"],), {})])
            tail = case["src"][len(IMPORTS + DECLS):] if case["src"].startswith(IMPORTS) else case["src"]
            report.violation(key, f"{case['id']}: {err}\n  input: {tail!r}", {"case": {"id": case["id"], "src": case["src"], "kind": case["kind"]}, "message": err})
    if os.path.exists(CANARY):
        report.violation(explore.history_key(ID, "canary", []), "a hostile expression was executed: the canary file exists", {"case": None})
        os.unlink(CANARY)
    report.bounds = {"positions": len(POSITIONS), "hostile": len(HOSTILE), "expensive": len(EXPENSIVE), "statements": len(STATEMENTS), "scopes": len(SCOPES),
                     "noise": f"all strings of length <= {4 if tier == 'thorough' else 3} over {len(NOISE_ALPHABET)} symbols as a file; length <= {3 if tier == 'thorough' else 2} in 8 wrappers", "time_limit_s": TIME_LIMIT}
    report.add_sample({"position": POSITIONS[20], "expr": HOSTILE[5]})
    report.add_sample({"position": POSITIONS[70], "expr": EXPENSIVE[6]})
    report.add_sample({"noise": "(:'"})
    return report.finish(
        rule="complete products position x expression, statement x scope, and all noise strings up to the length bound; each transpiled in an isolated interpreter under an audit hook; distinct = distinct (outcome, input text) pairs",
        assumptions=["audit events exec/open/import/os.*/subprocess.*/socket.* are how host-side execution or side effects would show", "hard limit 6 s per input (kill), soft limit 2 s; address space 3 GiB"],
    )


def replay(path: str) -> int:
    data = json.loads(open(path).read())
    case = data["case"]
    verdicts = []
    for _ in range(2):
        rec = sandbox.run("checks.c11_worker", [dict(case)], lanes=1, timeout=HARD_KILL_S, mem_mb=3072)[0]
        verdicts.append(classify(case, rec))
    print("replay:", verdicts[0])
    if bool(verdicts[0]) != bool(verdicts[1]):
        print("REPLAY-DIVERGENCE")
        return 2
    if verdicts[0]:
        print(f"VIOLATION property={ID} replay={path}")
        return 1
    return 0
