"""Device side of the harness: transpile with the *working tree* Reduino, compile the emitted C++
against the mock Arduino core (/verif/mock) and run it under scripted inputs.

Nothing here knows about properties; checks decide what a trace means.
"""
from __future__ import annotations

import os
import re
import shutil
import signal
import subprocess
import tempfile
import time
from dataclasses import dataclass, field
from pathlib import Path
from typing import Dict, Iterable, List, Optional, Sequence, Tuple

ROOT = Path(__file__).resolve().parent.parent
MOCK = ROOT / "mock"
BUILD = ROOT / "build"

CXX = os.environ.get("VERIF_CXX", "clang++")
BASE_FLAGS = ["-std=gnu++17", "-O0", "-w", "-ferror-limit=0", f"-I{MOCK}"]
SAN_FLAGS = ["-fsanitize=address,undefined", "-fno-sanitize-recover=all", "-fno-omit-frame-pointer", "-g1"]

LIB_HEADERS = ["Servo.h", "LiquidCrystal.h", "Wire.h", "LiquidCrystal_I2C.h"]


# ----------------------------------------------------------------------------------------------
# transpile
# ----------------------------------------------------------------------------------------------
class _Timeout(Exception):
    pass


def _alarm_handler(signum, frame):  # pragma: no cover - signal path
    raise _Timeout()


@dataclass
class Transpiled:
    status: str  # ok | reject | syntax | crash | timeout
    cpp: Optional[str] = None
    error: Optional[str] = None
    error_type: Optional[str] = None
    wall: float = 0.0


def transpile(src: str, timeout_s: float = 5.0) -> Transpiled:
    """Run the real parse()+emit() on ``src`` under a CPU-time limit."""
    from Reduino.transpile.emitter import emit
    from Reduino.transpile.parser import parse

    t0 = time.time()
    # the limit is on the CPU time of the transpilation (a loaded machine must not turn a slow run into a verdict); the
    # real-time timer is only a distant backstop
    old = signal.signal(signal.SIGALRM, _alarm_handler)
    old_prof = signal.signal(signal.SIGPROF, _alarm_handler)
    signal.setitimer(signal.ITIMER_PROF, timeout_s)
    signal.setitimer(signal.ITIMER_REAL, timeout_s * 20)
    try:
        try:
            cpp = emit(parse(src))
            return Transpiled("ok", cpp=cpp, wall=time.time() - t0)
        except _Timeout:
            return Transpiled("timeout", error="transpile exceeded %.1fs" % timeout_s, wall=time.time() - t0)
        except ValueError as exc:
            if os.environ.get("VERIF_REJECT_LOG"):  # developer aid: which generated scripts are rejected, and why
                with open(os.environ["VERIF_REJECT_LOG"], "a") as fh:
                    fh.write(str(exc)[:120].replace("\n", " ") + "\n")
            return Transpiled("reject", error=str(exc)[:300], error_type=type(exc).__name__, wall=time.time() - t0)
        except SyntaxError as exc:
            return Transpiled("syntax", error=str(exc)[:300], error_type="SyntaxError", wall=time.time() - t0)
        except RecursionError as exc:
            return Transpiled("crash", error=str(exc)[:300], error_type="RecursionError", wall=time.time() - t0)
        except Exception as exc:  # noqa: BLE001 - every other exception type is an internal error
            return Transpiled("crash", error=str(exc)[:300], error_type=type(exc).__name__, wall=time.time() - t0)
    finally:
        signal.setitimer(signal.ITIMER_PROF, 0)
        signal.setitimer(signal.ITIMER_REAL, 0)
        signal.signal(signal.SIGALRM, old)
        signal.signal(signal.SIGPROF, old_prof)


# ----------------------------------------------------------------------------------------------
# input scripts
# ----------------------------------------------------------------------------------------------
PIN_ALIASES = {f"A{i}": 14 + i for i in range(8)}


def pin_number(pin) -> int:
    if isinstance(pin, int):
        return pin
    text = str(pin).strip()
    if text in PIN_ALIASES:
        return PIN_ALIASES[text]
    return int(text)


def render_inputs(runs: Sequence[dict]) -> str:
    out: List[str] = []
    for idx, run in enumerate(runs):
        out.append(f"run {run.get('label', idx)}")
        out.append(f"passes {int(run.get('passes', 0))}")
        if run.get("t0"):
            out.append(f"t0 {int(run['t0'])}")
        if run.get("wrap") is not None:
            out.append(f"wrap {int(run['wrap'])}")
        if run.get("maxev"):
            out.append(f"maxev {int(run['maxev'])}")
        if run.get("lcdquiet"):
            out.append("lcdquiet 1")
        for key in ("dr", "ar"):
            for pin, values in (run.get(key) or {}).items():
                out.append(f"{key} {pin_number(pin)} " + " ".join(str(int(v)) for v in values))
        if run.get("pulse"):
            out.append("pulse " + " ".join(str(int(v)) for v in run["pulse"]))
        if run.get("adv"):
            out.append("adv " + " ".join(str(int(v)) for v in run["adv"]))
        out.append("end")
    return "\n".join(out) + "\n"


# ----------------------------------------------------------------------------------------------
# traces
# ----------------------------------------------------------------------------------------------
def unhex_latin1(text: str) -> str:
    """Decode an LCD cell dump: one character per byte (HD44780 cells are bytes, 0xFF is the block)."""
    if "%" not in text:
        return text
    out = []
    i = 0
    while i < len(text):
        if text[i] == "%" and i + 2 < len(text) + 1 and re.fullmatch(r"[0-9A-F]{2}", text[i + 1 : i + 3] or ""):
            out.append(chr(int(text[i + 1 : i + 3], 16)))
            i += 3
        else:
            out.append(text[i])
            i += 1
    return "".join(out)


def unhex(text: str) -> str:
    if "%" not in text:
        return text
    raw = bytearray()
    i = 0
    while i < len(text):
        ch = text[i]
        if ch == "%" and i + 2 < len(text) + 0 and re.fullmatch(r"[0-9A-F]{2}", text[i + 1 : i + 3] or ""):
            raw.append(int(text[i + 1 : i + 3], 16))
            i += 3
        else:
            raw.extend(ch.encode("utf-8"))
            i += 1
    return raw.decode("utf-8", errors="replace")


@dataclass
class Event:
    t: int
    kind: str
    args: List[str]
    phase: int  # -1 = setup, k = loop pass k

    def __repr__(self) -> str:
        return f"<{self.t} {self.kind} {' '.join(self.args)} @{self.phase}>"


@dataclass
class DeviceRun:
    label: str
    exit_code: int
    events: List[Event] = field(default_factory=list)
    faults: List[str] = field(default_factory=list)  # X lines (harness level) / M lines (allocator)
    sanitizer: List[str] = field(default_factory=list)
    completed: bool = False
    raw_tail: str = ""

    @property
    def ok(self) -> bool:
        return self.exit_code == 0 and self.completed and not self.sanitizer and not self.faults


_SAN_PAT = re.compile(r"(ERROR: AddressSanitizer|runtime error:|ERROR: LeakSanitizer|SUMMARY: (Address|UndefinedBehavior)Sanitizer)")


def parse_output(text: str) -> List[DeviceRun]:
    runs: List[DeviceRun] = []
    cur: Optional[DeviceRun] = None
    phase = -1
    for line in text.splitlines():
        if line.startswith("#### run"):
            cur = DeviceRun(label=line[9:].strip(), exit_code=-1)
            runs.append(cur)
            phase = -1
            continue
        if cur is None:
            continue
        if line.startswith("#### exit"):
            cur.exit_code = int(line.split()[2])
            cur = None
            continue
        if line.startswith("E "):
            parts = line.split(" ")
            try:
                cur.events.append(Event(int(parts[1]), parts[2], parts[3:], phase))
            except (IndexError, ValueError):
                cur.faults.append("garbled:" + line[:80])
            continue
        if line.startswith("== "):
            if line.startswith("== setup"):
                phase = -1
            elif line.startswith("== loop"):
                phase = int(line.split()[2])
            elif line.startswith("== end"):
                cur.completed = True
            continue
        if line.startswith("X ") or line.startswith("M "):
            cur.faults.append(line)
            continue
        if _SAN_PAT.search(line):
            cur.sanitizer.append(line.strip()[:200])
            continue
    for run in runs:
        if run.exit_code == -1:
            run.faults.append("X no_exit_marker")
    return runs


# ----------------------------------------------------------------------------------------------
# compile
# ----------------------------------------------------------------------------------------------
_INCLUDE_RE = re.compile(r"^\s*#\s*include\s*[<\"]([^>\"]+)[>\"]\s*$")
_ERR_RE = re.compile(r"^P(\d+)\.ino:(\d+):(\d+): (?:fatal )?error: (.*)$")
_ANY_ERR_RE = re.compile(r"^([^:\s]+):(\d+):(\d+): (?:fatal )?error: (.*)$")


def split_includes(cpp: str) -> Tuple[List[str], str]:
    """Return (#include names, sketch text with the include lines blanked out)."""
    includes: List[str] = []
    out: List[str] = []
    for line in cpp.split("\n"):
        m = _INCLUDE_RE.match(line)
        if m:
            includes.append(m.group(1))
            out.append("")  # keep line numbering
        else:
            out.append(line)
    return includes, "\n".join(out)


@dataclass
class Batch:
    binary: Optional[Path]
    index: Dict[int, int]  # program position in the input list -> index inside the binary
    compile_errors: Dict[int, List[str]]  # program position -> compiler messages
    workdir: Path
    sanitize: bool
    compile_s: float = 0.0

    def cleanup(self) -> None:
        shutil.rmtree(self.workdir, ignore_errors=True)


def _render_tu(programs: Sequence[Tuple[int, str]]) -> str:
    parts = ['#include "Arduino.h"']
    for header in LIB_HEADERS:
        parts.append(f'#include "{header}"')
    for k, (_, body) in enumerate(programs):
        parts.append(f"namespace P{k} {{")
        parts.append(f'#line 1 "P{k}.ino"')
        parts.append(body)
        parts.append("}")
        parts.append(f'#line 1 "glue{k}"')
    n = len(programs)
    parts.append("static void (*const REDU_SETUPS[])() = {" + ", ".join(f"P{k}::setup" for k in range(n)) + "};")
    parts.append("static void (*const REDU_LOOPS[])() = {" + ", ".join(f"P{k}::loop" for k in range(n)) + "};")
    parts.append(f"static const int REDU_NPROGS = {n};")
    parts.append('#include "driver.inc"')
    return "\n".join(parts) + "\n"


def _compile(tu_path: Path, out_path: Path, sanitize: bool) -> Tuple[bool, str]:
    cmd = [CXX, *BASE_FLAGS]
    if sanitize:
        cmd += SAN_FLAGS
    cmd += ["-o", str(out_path), str(tu_path)]
    proc = subprocess.run(cmd, capture_output=True, text=True)
    return proc.returncode == 0, proc.stderr


def build_batch(cpps: Sequence[str], *, sanitize: bool = False, tag: str = "b") -> Batch:
    """Compile many emitted sketches into one binary; sketches that do not compile are dropped
    (and reported) and the rest is rebuilt."""
    BUILD.mkdir(exist_ok=True)
    workdir = Path(tempfile.mkdtemp(prefix=f"{tag}-", dir=BUILD))
    t0 = time.time()
    live: List[Tuple[int, str]] = [(pos, split_includes(cpp)[1]) for pos, cpp in enumerate(cpps)]
    errors: Dict[int, List[str]] = {}
    binary: Optional[Path] = None
    attempt = 0
    while live:
        attempt += 1
        tu = workdir / f"tu{attempt}.cpp"
        tu.write_text(_render_tu(live), encoding="utf-8")
        out = workdir / f"batch{attempt}"
        ok, stderr = _compile(tu, out, sanitize)
        if ok:
            binary = out
            break
        bad: Dict[int, List[str]] = {}
        unattributed: List[str] = []
        for line in stderr.splitlines():
            m = _ERR_RE.match(line)
            if m:
                bad.setdefault(int(m.group(1)), []).append(f"{m.group(2)}:{m.group(3)}: {m.group(4)}")
                continue
            m2 = _ANY_ERR_RE.match(line)
            if m2:
                unattributed.append(line)
        if not bad:
            # Could not attribute (error reported inside a header or the glue): compile one by one.
            if len(live) == 1:
                errors[live[0][0]] = unattributed or [stderr.strip()[-400:] or "compile failed"]
                live = []
                break
            survivors: List[Tuple[int, str]] = []
            for pos, body in live:
                single_tu = workdir / f"single{pos}.cpp"
                single_tu.write_text(_render_tu([(pos, body)]), encoding="utf-8")
                ok1, err1 = _compile(single_tu, workdir / f"single{pos}", sanitize)
                if ok1:
                    survivors.append((pos, body))
                else:
                    msgs = [l for l in err1.splitlines() if " error: " in l][:5]
                    errors[pos] = msgs or [err1.strip()[-400:]]
            live = survivors
            continue
        for k, msgs in bad.items():
            errors[live[k][0]] = msgs[:6]
        live = [entry for k, entry in enumerate(live) if k not in bad]
    index = {pos: k for k, (pos, _) in enumerate(live)} if binary else {}
    return Batch(binary=binary, index=index, compile_errors=errors, workdir=workdir, sanitize=sanitize, compile_s=time.time() - t0)


def run_program(batch: Batch, pos: int, runs: Sequence[dict], timeout_s: float = 60.0) -> List[DeviceRun]:
    """Execute program ``pos`` of the batch for every input script in ``runs``."""
    if batch.binary is None or pos not in batch.index:
        raise KeyError(pos)
    env = dict(os.environ)
    if batch.sanitize:
        env["ASAN_OPTIONS"] = "detect_leaks=0:abort_on_error=0:log_path=stdout:allocator_may_return_null=1:exitcode=77"
        env["UBSAN_OPTIONS"] = "log_path=stdout:print_stacktrace=0:exitcode=78:halt_on_error=1"
    results: List[DeviceRun] = []
    # The wall-clock limit covers one invocation (all runs of the program, one forked child each).  On a loaded machine a
    # long list of runs may not fit: that is the harness' problem, not the firmware's - the runs that did not get their
    # turn are executed by a further invocation (as long as each invocation completes at least one run).
    attempts_without_progress = 0
    while len(results) < len(runs):
        todo = runs[len(results):]
        inp = batch.workdir / f"in{pos}.txt"
        inp.write_text(render_inputs(todo), encoding="utf-8")
        timed_out = False
        try:
            proc = subprocess.run(
                [str(batch.binary), str(batch.index[pos]), str(inp)],
                capture_output=True,
                timeout=max(timeout_s, 0.05 * len(todo)),
                env=env,
            )
            text = proc.stdout.decode("utf-8", errors="replace")
        except subprocess.TimeoutExpired as exc:
            text = (exc.stdout or b"").decode("utf-8", errors="replace")
            timed_out = True
        part = parse_output(text)
        if timed_out:
            # the run that was cut off (no exit marker) and everything after it did not really execute
            while part and part[-1].exit_code == -1:
                part.pop()
            if not part:
                attempts_without_progress += 1
                if attempts_without_progress >= 2:
                    break
                continue
            attempts_without_progress = 0
            results.extend(part[: len(todo)])
            continue
        results.extend(part[: len(todo)])
        break
    for k, run in enumerate(results):
        run.label = str(k)
    while len(results) < len(runs):
        results.append(DeviceRun(label=str(len(results)), exit_code=-2, faults=["X missing_run"]))
    return results


def compile_single(cpp: str, *, syntax_only: bool = True, workdir: Optional[Path] = None) -> Tuple[bool, List[str]]:
    """Compile one emitted sketch *with its own #include lines* against the mock headers.

    Library classes are only visible if the sketch includes their header, so a missing
    include is a compile error here (it is not in batch mode)."""
    BUILD.mkdir(exist_ok=True)
    own = workdir is None
    wd = Path(tempfile.mkdtemp(prefix="single-", dir=BUILD)) if own else workdir
    try:
        tu = wd / "sketch.cpp"
        glue = (
            "\nstatic void (*const REDU_SETUPS[])() = {setup};\n"
            "static void (*const REDU_LOOPS[])() = {loop};\n"
            "static const int REDU_NPROGS = 1;\n"
            '#include "driver.inc"\n'
        )
        tu.write_text('#line 1 "P0.ino"\n' + cpp + glue, encoding="utf-8")
        cmd = [CXX, *BASE_FLAGS]
        if syntax_only:
            cmd += ["-fsyntax-only", str(tu)]
        else:
            cmd += ["-o", str(wd / "sketch"), str(tu)]
        proc = subprocess.run(cmd, capture_output=True, text=True)
        msgs = [l for l in proc.stderr.splitlines() if " error: " in l][:8]
        return proc.returncode == 0, msgs
    finally:
        if own:
            shutil.rmtree(wd, ignore_errors=True)
