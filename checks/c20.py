"""C20 — host sensor / Core-pin / timing / serial helpers are faithful small models.

* Core pin simulation: explicit-state BFS to fixpoint over every interleaving of
  pin_mode / digital_write / analog_write on aliased pins (7 and "7") and a second pin, compared after
  every transition with a dict memory (the reference model is the search's canonical state).
* Utils.map: the full integer grid -4..4 for all five parameters against exact Fraction arithmetic.
* Utils.sleep, Button, Potentiometer, Ultrasonic, SerialMonitor: all provider / call sequences up to a
  small length over boundary values.
"""
from __future__ import annotations

import importlib
import itertools
import json
import math
from collections import deque
from fractions import Fraction
from typing import Any, Dict, List, Optional, Tuple

from rmc import explore
from rmc.runner import Report

ID = "C20"
LEVEL = "model_checking"


# ------------------------------------------------------------------------------------------
# Core
# ------------------------------------------------------------------------------------------
CORE_PINS = [7, "7", "A0"]


def _norm(pin):
    return int(pin) if isinstance(pin, str) and pin.isdigit() else pin


def core_ops(tier):
    import Reduino.Core as K

    ops = []
    avals = [-1, 0, 127, 255, 300, 100.0] + ([1, 254, 256] if tier == "thorough" else [])
    for pin in CORE_PINS:
        reduced = tier != "thorough" and pin == "A0"  # quick: the second physical pin gets a small alphabet
        for mode in ((K.INPUT_PULLUP,) if reduced else (K.INPUT, K.OUTPUT, K.INPUT_PULLUP)):
            ops.append(("pin_mode", (pin, mode), {}))
        for v in ((1,) if reduced else (0, 1, True, 2, K.HIGH, K.LOW)[: (6 if tier == "thorough" else 4)]):
            ops.append(("digital_write", (pin, v), {}))
        for v in ((300,) if reduced else avals):
            ops.append(("analog_write", (pin, v), {}))
    return ops


def model_step(state: Dict[Any, tuple], op) -> Dict[Any, tuple]:
    name, args, _ = op
    new = dict(state)
    key = _norm(args[0])
    mode, dval, aval = new.get(key, (None, None, None))
    if name == "pin_mode":
        mode = args[1]
    elif name == "digital_write":
        dval = 1 if args[1] else 0
    elif name == "analog_write":
        aval = max(0, min(255, int(round(float(args[1])))))
    new[key] = (mode, dval, aval)
    return new


def model_reads(state, pin) -> Tuple[int, int]:
    mode, dval, aval = state.get(_norm(pin), (None, None, None))
    d = dval if dval is not None else (1 if mode == "INPUT_PULLUP" else 0)
    a = aval if aval is not None else 0
    return d, a


def core_build(history):
    import Reduino.Core as K

    importlib.reload(K)  # fresh module state, as in a new process
    for name, args, kwargs in history:
        getattr(K, name)(*args, **kwargs)
    return K


def check_button_handlers(report: Report) -> dict:
    """Handlers that look at their own button, or raise: one click per rising edge of the sampled level all the same
    (every 0/1 level sequence up to length 6, manual levels)."""
    import Reduino.Sensors as S

    n = 0
    for length in range(1, 7):
        for levels in itertools.product((0, 1), repeat=length):
            for kind in ("polls_itself", "raises_once", "polls_and_counts"):
                n += 1
                clicks = []
                box = {}

                def handler():
                    clicks.append(1)
                    if kind == "polls_itself":
                        box["b"].is_pressed()
                    elif kind == "polls_and_counts":
                        box["b"].is_pressed()
                        box["b"].is_pressed()
                    elif kind == "raises_once" and len(clicks) == 1:
                        raise RuntimeError("handler failed")

                try:
                    b = S.Button(2, on_click=handler)
                except TypeError:
                    b = S.Button(pin=2, on_click=handler)
                box["b"] = b
                err = None
                try:
                    for lv in levels:
                        b.set_pressed(bool(lv))
                        try:
                            b.is_pressed()
                        except RuntimeError:
                            pass
                except RecursionError:
                    err = "the handler polling its own button re-entered itself until RecursionError"
                except Exception as exc:  # noqa: BLE001
                    err = f"raised {type(exc).__name__}: {exc}"
                rising = sum(1 for i, lv in enumerate(levels) if lv and (i == 0 or not levels[i - 1]))
                if err is None and len(clicks) != rising:
                    err = f"{len(clicks)} clicks for {rising} rising edges"
                if err:
                    report.violation(explore.history_key(ID, "Button-handler", [("levels", (kind,) + tuple(levels), {})]), f"Button with a handler that {kind.replace('_', ' ')}: levels {levels}: {err}",
                                     {"subject": "Button-handler", "kind": kind, "levels": list(levels)})
    report.evaluations += n
    return {"histories": n}


def core_edge_values(report: Report) -> dict:
    """analog values beyond any integer (clamped like every other value), NaN (refused with ValueError, pin unchanged), and
    pin names made of characters that only LOOK like digits (plain names, never an uncaught error)."""
    import Reduino.Core as K

    n = 0
    for value, want in ((float("inf"), 255), (float("-inf"), 0), (1e308, 255), (-1e308, 0), (255.4, 255), (254.5, 254), (0.5, 0), (1.5, 2), (True, 1)):
        importlib.reload(K)
        n += 1
        try:
            K.analog_write(5, value)
            got = K.analog_read(5)
        except Exception as exc:  # noqa: BLE001
            got = f"{type(exc).__name__}: {exc}"
        if got != want:
            report.violation(explore.history_key(ID, "Core-edge", [("analog_write", (repr(value),), {})]), f"Core: analog_write(5, {value!r}) then analog_read(5) gives {got!r}, the clamped value is {want}",
                             {"subject": "Core-edge", "value": repr(value)})
    importlib.reload(K)
    K.analog_write(5, 77)
    n += 1
    try:
        K.analog_write(5, float("nan"))
        outcome = "accepted"
    except ValueError:
        outcome = "ValueError"
    except Exception as exc:  # noqa: BLE001
        outcome = type(exc).__name__
    if outcome != "ValueError" or K.analog_read(5) != 77:
        report.violation(explore.history_key(ID, "Core-edge", [("analog_write", ("nan",), {})]), f"Core: analog_write(5, nan) -> {outcome}, pin afterwards {K.analog_read(5)} (expected ValueError and the old value 77)",
                         {"subject": "Core-edge", "value": "nan"})
    for name in ("\u00b2", "\u2460", "7\u00b2", "", " 7", "7 ", "+7", "-7", "7.0", "0x7"):
        importlib.reload(K)
        n += 1
        try:
            K.digital_write(name, K.HIGH)
            K.analog_write(name, 9)
            K.pin_mode(name, K.INPUT_PULLUP)
            got = (K.digital_read(name), K.analog_read(name), K.digital_read(7), K.analog_read(7))
        except Exception as exc:  # noqa: BLE001
            got = f"{type(exc).__name__}: {exc}"
        if got != (1, 9, 0, 0):
            report.violation(explore.history_key(ID, "Core-edge", [("pin", (repr(name),), {})]), f"Core: pin name {name!r} written and read back gives {got!r}; expected its own cell (1, 9) and pin 7 untouched (0, 0)",
                             {"subject": "Core-edge", "pin": repr(name)})
    report.evaluations += n
    return {"cases": n}


def core_alias_grid(report: Report, tier: str) -> dict:
    """Every pin number 0..69 in every decimal spelling (int, str, zero-padded str): a value written through one spelling is
    read back through every other spelling of the same pin, and through no spelling of the neighbouring pin."""
    import Reduino.Core as K

    n = 0
    for pin in range(0, 70):
        spellings = [pin, str(pin), f"{pin:02d}", f"{pin:03d}"]
        spellings = list(dict.fromkeys(spellings))
        other = [pin + 1, str(pin + 1)]
        for w in spellings:
            for kind, op, want in (("digital", lambda k, q: k.digital_write(q, k.HIGH), (1, 0)), ("analog", lambda k, q: k.analog_write(q, 123), (0, 123)),
                                   ("pullup", lambda k, q: k.pin_mode(q, k.INPUT_PULLUP), (1, 0))):
                importlib.reload(K)
                op(K, w)
                for r in spellings + other:
                    n += 1
                    got = (K.digital_read(r), K.analog_read(r))
                    expect = want if r in spellings else (0, 0)
                    if got != expect:
                        hist = [(kind + "_write" if kind != "pullup" else "pin_mode", (w,), {}), ("read", (r,), {})]
                        report.violation(explore.history_key(ID, "Core-alias", hist), f"Core: {kind} value set through pin {w!r}, (digital_read, analog_read)({r!r}) = {got}, expected {expect}",
                                         {"subject": "Core-alias", "write": repr(w), "read": repr(r), "kind": kind})
    report.evaluations += n
    report.transitions += n
    return {"reads": n}


def core_bfs(report: Report, tier: str) -> dict:
    ops = core_ops(tier)
    read_pins = CORE_PINS + [8, "8", "A1"]
    init: Dict[Any, tuple] = {}

    def canon(state):
        return tuple(sorted((str(k), v) for k, v in state.items()))

    seen = {canon(init): []}
    frontier = deque([init])
    transitions = 0
    violations = 0
    max_depth = 0
    while frontier:
        state = frontier.popleft()
        hist = seen[canon(state)]
        max_depth = max(max_depth, len(hist))
        for op in ops:
            transitions += 1
            K = core_build(hist + [op])
            nxt = model_step(state, op)
            err = None
            for pin in read_pins:
                want = model_reads(nxt, pin)
                got = (K.digital_read(pin), K.analog_read(pin))
                if got != want:
                    err = f"after the history, (digital_read, analog_read)({pin!r}) = {got}, memory model says {want}"
                    break
            if err:
                violations += 1
                history = hist + [op]
                key = explore.history_key(ID, "Core", history)
                report.violation(key, "Core: " + " ; ".join(explore.op_text(o) for o in history) + " -> " + err,
                                 {"subject": "Core", "history": [[n, list(a), k] for n, a, k in history], "message": err})
                continue
            ck = canon(nxt)
            if ck not in seen:
                seen[ck] = hist + [op]
                frontier.append(nxt)
                if len(report.samples) < 2 and len(hist) >= 2:
                    report.add_sample({"subject": "Core", "history": [explore.op_text(o) for o in hist + [op]]})
    for i in range(len(seen)):
        report.states.add(("Core", i))
    report.transitions += transitions
    report.traces_validated += transitions
    report.evaluations += transitions
    return {"states": len(seen), "transitions": transitions, "max_depth": max_depth, "fixpoint": True, "alphabet": len(ops)}


# ------------------------------------------------------------------------------------------
# map / sleep
# ------------------------------------------------------------------------------------------
def check_map(report: Report, tier: str) -> dict:
    import Reduino.Utils as U

    rng = range(-4, 5)
    n = 0
    bad = 0
    for v, fl, fh, tl, th in itertools.product(rng, repeat=5):
        n += 1
        case = (v, fl, fh, tl, th)
        try:
            got = U.map(v, fl, fh, tl, th)
            exc = None
        except Exception as e:  # noqa: BLE001
            got, exc = None, e
        if fl == fh:
            ok = isinstance(exc, ValueError)
            why = f"zero-width source range not refused (got {got!r}, {type(exc).__name__ if exc else 'no error'})"
        elif exc is not None:
            ok, why = False, f"raised {type(exc).__name__}: {exc}"
        else:
            want = Fraction(tl) + Fraction(v - fl, fh - fl) * (th - tl)
            ok = abs(Fraction(got) - want) <= Fraction(1, 10 ** 12) * max(1, abs(want))
            why = f"map{case} = {got!r}, exact affine value {float(want)!r}"
        if not ok:
            bad += 1
            if bad <= 10:
                report.violation(explore.history_key(ID, "map", [("map", case, {})]), f"Utils.map: {why}", {"subject": "map", "args": list(case), "message": why})
    floats = [(2.5, 0.0, 10.0, 0.0, 100.0), (512, 0, 1023, 0.0, 5.0), (-1.5, -2.0, 2.0, 10.0, -10.0), (0.1, 0.0, 0.3, 1.0, 2.0), (7, 10, 0, 0, 1)]
    for case in floats:
        n += 1
        got = U.map(*case)
        want = Fraction(case[3]) + (Fraction(case[0]) - Fraction(case[1])) / (Fraction(case[2]) - Fraction(case[1])) * (Fraction(case[4]) - Fraction(case[3]))
        if abs(Fraction(got) - want) > Fraction(1, 10 ** 9) * max(1, abs(want)):
            report.violation(explore.history_key(ID, "map", [("map", case, {})]), f"Utils.map{case} = {got!r}, exact {float(want)!r}", {"subject": "map", "args": list(case)})
    # source ranges whose bounds differ as written but whose width is zero in floating point: refused like any empty
    # range (a ZeroDivisionError is not a refusal); huge but distinct bounds still map
    for case in ((1, 1e16, 10 ** 16 + 1, 0, 1), (1, 10 ** 16 + 1, 1e16, 0, 1), (0.5, 1e308, 1e308, 0, 1), (3, 2 ** 53, 2 ** 53 + 1.0, 0, 1), (5, 0.0, -0.0, 1, 2), (5, 7, 7.0, 1, 2), (5, True, 1, 1, 2)):
        n += 1
        try:
            got, exc = U.map(*case), None
        except Exception as e:  # noqa: BLE001
            got, exc = None, e
        if not isinstance(exc, ValueError):
            report.violation(explore.history_key(ID, "map", [("map", tuple(map(repr, case)), {})]), f"Utils.map{case}: a zero-width source range must be refused with ValueError; got {got!r} / {type(exc).__name__ if exc else 'no error'}",
                             {"subject": "map", "args": [repr(c) for c in case]})
    for case in ((10 ** 16 + 2, 10 ** 16, 10 ** 16 + 4, 0, 100), (3, 1, 5, 10 ** 20, 10 ** 20 + 8)):
        n += 1
        got = U.map(*case)
        want = Fraction(case[3]) + Fraction(case[0] - case[1], case[2] - case[1]) * (case[4] - case[3])
        if abs(Fraction(got) - want) > Fraction(1, 10 ** 9) * max(1, abs(want)):
            report.violation(explore.history_key(ID, "map", [("map", case, {})]), f"Utils.map{case} = {got!r}, exact {float(want)!r}", {"subject": "map", "args": [repr(c) for c in case]})
    report.evaluations += n
    report.add_sample({"subject": "map", "args": [3, -4, 4, -2, 2]})
    return {"tuples": n}


def check_sleep(report: Report) -> dict:
    import Reduino.Utils as U

    n = 0
    for d in (0, 1, 250, 2.5, True, 10 ** 6, 0.001, -1, -0.001, -10 ** 6):
        n += 1
        calls: List[float] = []
        try:
            U.sleep(d, sleep_func=calls.append)
            exc = None
        except Exception as e:  # noqa: BLE001
            exc = e
        if d < 0:
            ok = isinstance(exc, ValueError) and not calls
            why = f"sleep({d!r}) must raise ValueError without sleeping (exc={exc!r}, calls={calls})"
        else:
            ok = exc is None and len(calls) == 1 and abs(calls[0] - float(d) / 1000.0) <= 1e-15 * max(1.0, abs(d))
            why = f"sleep({d!r}) called the sleeper with {calls} (expected exactly once with {float(d) / 1000.0})"
        if not ok:
            report.violation(explore.history_key(ID, "sleep", [("sleep", (d,), {})]), "Utils.sleep: " + why, {"subject": "sleep", "args": [d], "message": why})
    report.evaluations += n
    return {"cases": n}


# ------------------------------------------------------------------------------------------
# sensors
# ------------------------------------------------------------------------------------------
def check_button(report: Report, tier: str) -> dict:
    from Reduino.Sensors import Button

    maxlen = 8 if tier == "thorough" else 6
    n = 0
    alphabet = [0, 1, 2, 0.5] if tier != "thorough" else [0, 1, True, 2, 0.5, "down", ""]
    for length in range(0, maxlen + 1):
        for seq in itertools.product(alphabet if length <= (5 if tier == "thorough" else 4) else [0, 1], repeat=length):
            for mode in ("provider", "set_pressed"):
                n += 1
                clicks: List[int] = []
                it = iter(seq)
                if mode == "provider":
                    btn = Button(4, on_click=lambda: clicks.append(1), state_provider=lambda: next(it))
                else:
                    btn = Button(4, on_click=lambda: clicks.append(1))
                prev = False
                want_clicks = 0
                err = None
                for i, v in enumerate(seq):
                    if mode == "set_pressed":
                        btn.set_pressed(v)
                    got = btn.is_pressed()
                    cur = bool(v)
                    if cur and not prev:
                        want_clicks += 1
                    prev = cur
                    if got != (1 if cur else 0):
                        err = f"sample {i}: is_pressed() = {got!r} for signal {v!r}"
                        break
                    if len(clicks) != want_clicks:
                        err = f"after sample {i} on_click fired {len(clicks)} times, rising edges so far {want_clicks}"
                        break
                if err:
                    hist = [("signal", tuple(seq), {"mode": mode})]
                    report.violation(explore.history_key(ID, "Button", hist), f"Button[{mode}] signal {list(seq)}: {err}",
                                     {"subject": "Button", "signal": list(seq), "mode": mode, "message": err})
    # operation histories: polls interleaved with set_pressed() calls (which do not poll).  on_click fires once
    # per rising edge of the POLLED signal, whatever happened between two polls; with a provider the level is
    # the provider's value at the poll and set_pressed() cannot add edges.
    depth = 7 if tier == "thorough" else 6
    for mode, tokens in (("set_pressed", ("p", "s0", "s1")), ("provider", ("p0", "p1", "s0", "s1"))):
        for length in range(1, depth + 1):
            for hist in itertools.product(tokens, repeat=length):
                if not any(t.startswith("p") for t in hist):
                    continue
                n += 1
                clicks = []
                feed: List[int] = []
                if mode == "provider":
                    btn = Button(4, on_click=lambda: clicks.append(1), state_provider=lambda: feed.pop(0))
                else:
                    btn = Button(4, on_click=lambda: clicks.append(1))
                level = 0
                prev_polled = 0
                want = 0
                err = None
                for i, t in enumerate(hist):
                    if t in ("s0", "s1"):
                        btn.set_pressed(t == "s1")
                        if mode == "set_pressed":
                            level = 1 if t == "s1" else 0
                        continue
                    if mode == "provider":
                        level = 1 if t == "p1" else 0
                        feed.append(level)
                    got = btn.is_pressed()
                    if level and not prev_polled:
                        want += 1
                    prev_polled = level
                    if got != level:
                        err = f"step {i}: is_pressed() = {got!r}, level {level}"
                        break
                    if len(clicks) != want:
                        err = f"after step {i} on_click fired {len(clicks)} times, the polled signal had {want} rising edges"
                        break
                if err:
                    h = [("ops", tuple(hist), {"mode": mode})]
                    report.violation(explore.history_key(ID, "ButtonOps", h), f"Button[{mode}] history {list(hist)}: {err}",
                                     {"subject": "ButtonOps", "ops": list(hist), "mode": mode, "message": err})
    report.evaluations += n
    report.add_sample({"subject": "Button", "signal": [0, 1, 1, 0, 1], "clicks": 2})
    report.add_sample({"subject": "Button", "history": ["s1", "p", "s0", "s1", "p"], "clicks": 1})
    return {"sequences": n}


def check_pot_ultra(report: Report, tier: str) -> dict:
    from Reduino.Sensors import Potentiometer, Ultrasonic

    n = 0
    pot_vals = [-1, 0, 1, 512, 1023, 1024, 5000, -1e-9, 1023.0000001, 512.5, 0.25, 900.0, 1022.999, True]
    for seq in itertools.chain.from_iterable(itertools.product(pot_vals, repeat=k) for k in range(1, (4 if tier == "thorough" else 3))):
        n += 1
        it = iter(seq)
        pot = Potentiometer("A0", value_provider=lambda: next(it))
        for i, v in enumerate(seq):
            try:
                got, exc = pot.read(), None
            except Exception as e:  # noqa: BLE001
                got, exc = None, e
            # an in-range reading is returned as the integer the ADC would deliver (non-integral providers are truncated)
            ok = (isinstance(exc, ValueError)) if (v < 0 or v > 1023) else (exc is None and got == int(v))
            if not ok:
                hist = [("values", tuple(seq), {})]
                msg = f"read #{i} with provider value {v}: got {got!r} exc {exc!r}"
                report.violation(explore.history_key(ID, "Potentiometer", hist), f"Potentiometer {list(seq)}: {msg}", {"subject": "Potentiometer", "values": list(seq), "message": msg})
                break
    n += 1
    if Potentiometer("A3").read() != 0:
        report.violation(explore.history_key(ID, "Potentiometer", [("default", (), {})]), "Potentiometer without provider must read 0", {"subject": "Potentiometer"})
    us_vals = [-1, -0.001, 0, 0.0, 12.5, 400, 10 ** 6, -1e-9, -1e-10, -5e-324, 0.3 - 3 * 0.1, 5e-324, 1e-10]
    for seq in itertools.chain.from_iterable(itertools.product(us_vals, repeat=k) for k in range(1, (4 if tier == "thorough" else 3))):
        n += 1
        it = iter(seq)
        u = Ultrasonic(2, 3, distance_provider=lambda: next(it))
        for i, v in enumerate(seq):
            try:
                got, exc = u.measure_distance(), None
            except Exception as e:  # noqa: BLE001
                got, exc = None, e
            ok = isinstance(exc, ValueError) if v < 0 else (exc is None and got == float(v))
            if not ok:
                hist = [("values", tuple(seq), {})]
                msg = f"measurement #{i} with provider value {v}: got {got!r} exc {exc!r}"
                report.violation(explore.history_key(ID, "Ultrasonic", hist), f"Ultrasonic {list(seq)}: {msg}", {"subject": "Ultrasonic", "values": list(seq), "message": msg})
                break
    report.evaluations += n
    return {"sequences": n}


# ------------------------------------------------------------------------------------------
# SerialMonitor
# ------------------------------------------------------------------------------------------
class _FakePort:
    def __init__(self, port=None, baudrate=None, timeout=None):
        self.port, self.baudrate, self.timeout = port, baudrate, timeout
        self.is_open = True
        self.sent: List[bytes] = []
        self.lines: List[bytes] = []

    def write(self, payload):
        self.sent.append(bytes(payload))
        return len(payload)

    def readline(self):
        return self.lines.pop(0) if self.lines else b""

    def close(self):
        self.is_open = False


class _FakeSerialModule:
    def __init__(self):
        self.opened: List[_FakePort] = []

    def Serial(self, port=None, baudrate=None, timeout=None):  # noqa: N802 - pyserial API
        p = _FakePort(port, baudrate, timeout)
        self.opened.append(p)
        return p


def check_serial(report: Report, tier: str) -> dict:
    import Reduino.Communication as C
    from Reduino.Communication import SerialMonitor

    values = [0, -5, 3.5, True, None, "", "héllo", "a\nb", "ready\n", "\n", "x\r\n", [1, 2], (1,), {"k": 1}, 1e-7, 10 ** 20, b"x", "tab\t", float("inf")]
    n = 0
    saved = getattr(C, "serial", None)
    try:
        for k in (1, 2):
            for seq in itertools.product(values, repeat=k) if k == 1 or tier == "thorough" else itertools.product(values[:10], repeat=2):
                n += 1
                fake = _FakeSerialModule()
                C.serial = fake
                mon = SerialMonitor(9600, "COM9")
                port = fake.opened[-1]
                err = None
                for v in seq:
                    before = len(port.sent)
                    ret = mon.write(v)
                    if ret != str(v):
                        err = f"write({v!r}) returned {ret!r}, expected {str(v)!r}"
                        break
                    if port.sent[before:] != [(str(v) + "\n").encode("utf-8")]:
                        err = f"write({v!r}) sent {port.sent[before:]!r}, expected exactly {(str(v) + chr(10)).encode('utf-8')!r}"
                        break
                if err is None:
                    mon.close()
                    if port.is_open:
                        err = "close() left the port open"
                    else:
                        ret = mon.write("after-close")
                        if ret != "after-close":
                            err = f"write after close returned {ret!r}"
                if err:
                    hist = [("writes", tuple(repr(v) for v in seq), {})]
                    report.violation(explore.history_key(ID, "SerialMonitor", hist), f"SerialMonitor {seq!r}: {err}", {"subject": "SerialMonitor", "values": [repr(v) for v in seq], "message": err})
        # configured terminators (the empty one included): exactly str(value) + terminator goes out
        for nl in ("", "\r\n", "\r", ";", "\0", "\n\n", " "):
            for v in values:
                n += 1
                fake = _FakeSerialModule()
                C.serial = fake
                mon = SerialMonitor(9600, "COM9", newline=nl)
                port = fake.opened[-1]
                ret = mon.write(v)
                want = (str(v) + nl).encode("utf-8")
                if ret != str(v) or port.sent != [want]:
                    hist = [("newline", (repr(nl), repr(v)), {})]
                    msg = f"newline={nl!r}: write({v!r}) returned {ret!r} and sent {port.sent!r}, expected {want!r}"
                    report.violation(explore.history_key(ID, "SerialMonitor", hist), f"SerialMonitor: {msg}", {"subject": "SerialMonitor", "values": [repr(v)], "newline": nl, "message": msg})
        # unconnected monitor: returns the text, sends nothing, read() demands a connection
        n += 1
        C.serial = None
        mon = SerialMonitor(115200)
        if mon.write(42) != "42":
            report.violation(explore.history_key(ID, "SerialMonitor", [("unconnected", (), {})]), "unconnected write must return str(value)", {"subject": "SerialMonitor"})
        try:
            mon.read()
            report.violation(explore.history_key(ID, "SerialMonitor", [("read-unconnected", (), {})]), "read() without a connection must raise", {"subject": "SerialMonitor"})
        except RuntimeError:
            pass
        for bad in (0, -9600):
            n += 1
            try:
                SerialMonitor(bad)
                report.violation(explore.history_key(ID, "SerialMonitor", [("baud", (bad,), {})]), f"baud rate {bad} accepted", {"subject": "SerialMonitor"})
            except ValueError:
                pass
    finally:
        C.serial = saved
    report.evaluations += n
    report.add_sample({"subject": "SerialMonitor", "writes": ["héllo", 3.5]})
    return {"sequences": n}


def main(tier: str, seed: int, only=None) -> int:
    report = Report(ID, LEVEL, tier, seed)
    stats = {}
    stats["Core"] = core_bfs(report, tier)
    stats["Core-alias"] = core_alias_grid(report, tier)
    stats["Core-edge"] = core_edge_values(report)
    stats["Button-handlers"] = check_button_handlers(report)
    stats["map"] = check_map(report, tier)
    stats["sleep"] = check_sleep(report)
    stats["Button"] = check_button(report, tier)
    stats["PotUltra"] = check_pot_ultra(report, tier)
    stats["Serial"] = check_serial(report, tier)
    report.extra_cov["per_part"] = stats
    report.distinct = set(range(stats["Core"]["states"] + stats["Button"]["sequences"]))
    report.bounds = {"Core": "BFS to fixpoint, pins 7/'7'/'A0', reads on 6 pin names", "map": "integers -4..4 on all five parameters (59049 tuples) + 5 float cases",
                     "Button": "all signals up to length 6 (quick) / 8 (thorough)", "Pot/Ultrasonic": "all provider sequences up to length 2 (quick) / 3 (thorough) over 7 boundary values",
                     "SerialMonitor": "all single values of 16 kinds, pairs (quick: 6 kinds)"}
    importlib.reload(importlib.import_module("Reduino.Core"))
    return report.finish(
        rule="Core: explicit-state BFS with the dict memory as canonical state, implementation rebuilt per history; other helpers: complete products of the stated argument grids / sequences",
        assumptions=["Core module state is reset by re-executing the module (importlib.reload), i.e. as in a fresh process"],
    )


def replay(path: str) -> int:
    data = json.loads(open(path).read())
    if data.get("subject") == "Core":
        history = [(n, tuple(a), dict(k)) for n, a, k in data["history"]]
        state: Dict[Any, tuple] = {}
        for op in history:
            state = model_step(state, op)
        K = core_build(history)
        for pin in CORE_PINS + [8, "8", "A1"]:
            if (K.digital_read(pin), K.analog_read(pin)) != model_reads(state, pin):
                print(f"VIOLATION property={ID} replay={path}")
                return 1
        print("replay: holds")
        return 0
    # other subjects are cheap: re-run the whole part
    report = Report(ID, LEVEL, "quick", 0)
    {"map": lambda: check_map(report, "quick"), "sleep": lambda: check_sleep(report), "Button": lambda: check_button(report, "thorough"),
     "Potentiometer": lambda: check_pot_ultra(report, "thorough"), "Ultrasonic": lambda: check_pot_ultra(report, "thorough"),
     "SerialMonitor": lambda: check_serial(report, "thorough")}[data["subject"]]()
    if report.violations:
        print(f"VIOLATION property={ID} replay={path}")
        return 1
    print("replay: holds")
    return 0
