"""setup_cmd: verify the toolchain the checks rely on and warm the mock core (syntax check)."""
from __future__ import annotations

import shutil
import subprocess
import sys
from pathlib import Path

ROOT = Path(__file__).resolve().parent.parent


def main() -> int:
    (ROOT / "build").mkdir(exist_ok=True)
    (ROOT / "evidence").mkdir(exist_ok=True)
    (ROOT / "replays").mkdir(exist_ok=True)
    for tool in ("clang++",):
        if shutil.which(tool) is None:
            print(f"setup: missing tool {tool}")
            return 1
    probe = ROOT / "build" / "probe.cpp"
    probe.write_text(
        '#include <Arduino.h>\n#include <Servo.h>\n#include <LiquidCrystal.h>\n#include <Wire.h>\n#include <LiquidCrystal_I2C.h>\n'
        "void setup() {}\nvoid loop() {}\n"
        "static void (*const REDU_SETUPS[])() = {setup};\nstatic void (*const REDU_LOOPS[])() = {loop};\nstatic const int REDU_NPROGS = 1;\n"
        '#include "driver.inc"\n'
    )
    proc = subprocess.run(["clang++", "-std=gnu++17", "-O0", "-w", f"-I{ROOT / 'mock'}", "-fsyntax-only", str(probe)], capture_output=True, text=True)
    if proc.returncode != 0:
        print(proc.stderr)
        return 1
    try:
        sys.path.insert(0, "/repo/src")
        import Reduino  # noqa: F401
    except Exception as exc:  # noqa: BLE001
        print("setup: cannot import Reduino from the working tree:", exc)
        return 1
    print("setup ok")
    return 0
