#!/bin/bash
# usage: tools/seed_sweep_par.sh [-j N] [seed names...]  -- like seed_sweep.sh but every seed is applied to its own scratch copy
# of the committed /repo/src (git archive HEAD) and checked through REDUINO_SRC, N seeds at a time; /repo is never touched.
# Prints one line per seed: <seed> <check>:DETECTED|missed|APPLY-FAILED.
cd /verif
jobs=3
if [ "${1:-}" = "-j" ]; then jobs="$2"; shift 2; fi
names="$@"; [ -z "$names" ] && names=$(ls seeded | awk -F- '{print $2, $1, $0}' | sort -n -k1,1 -k2,2 | awk '{print $3}')
one() {
  n="$1"; d=/verif/seeded/$n
  checks=$(python3 -c "import json;m=json.load(open('$d/meta.json'));print(' '.join(sorted({c.split()[-1] for c in m.get('checked_with',[])})))")
  scratch=$(mktemp -d /tmp/redu-sweep-XXXXXX)
  git -C /repo archive HEAD src | tar -x -C "$scratch"
  if ! ( cd "$scratch" && patch -p1 -s --dry-run < "$d/patch.diff" >/dev/null 2>&1 && patch -p1 -s < "$d/patch.diff" >/dev/null 2>&1 ); then echo "$n APPLY-FAILED"; rm -rf "$scratch"; return; fi
  res=""
  for c in $checks; do
    out=$(REDUINO_SRC="$scratch/src" VERIF_EVIDENCE_DIR="$scratch/evidence" timeout 1500 ./check $c 2>&1 | tail -1)
    if echo "$out" | grep -q "FAIL"; then res="$res $c:DETECTED"; else res="$res $c:missed"; fi
  done
  rm -rf "$scratch"
  echo "$n$res"
}
export -f one
printf "%s\n" $names | xargs -P "$jobs" -I{} bash -c 'one {}'
