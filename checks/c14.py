"""C14 — library deps, #includes and instantiated library classes always agree.

Enumerates servos 0-2 x parallel LCDs 0-2 x I2C LCDs 0-2 x every subset (<= 2) of the seven other device
kinds x placement of each servo {before the loop, top of the loop body} x with/without an LCD animation.
For every script: lib_deps (the function target() uses), the #include set of the emitted text and the set
of library classes it instantiates must agree pairwise and with the devices the script declares, each at
most once; and the sketch must compile against mock headers that define a class only in its own header.
Scripts are evaluated one after another in the same interpreter, in two different orders and twice in a
row, so that history dependence shows.
"""
from __future__ import annotations

import itertools
import json
import re
from typing import Dict, Iterator, List, Optional, Sequence, Set, Tuple

from rmc import device, explore, pipeline
from rmc.runner import Report

ID = "C14"
LEVEL = "exploration"
BUILD = __import__("pathlib").Path(__file__).resolve().parent.parent / "build"
BUILD.mkdir(exist_ok=True)

IMPORTS = (
    "from Reduino import target\n"
    'target("COM3")\n'
    "from Reduino.Actuators import Led, RGBLed, Servo, DCMotor, Buzzer\n"
    "from Reduino.Sensors import Button, Potentiometer, Ultrasonic\n"
    "from Reduino.Displays import LCD\n"
    "from Reduino.Communication import SerialMonitor\n"
    "from Reduino.Utils import sleep\n"
)
OTHERS = {
    "led": ("led = Led(13)", "led.toggle()"),
    "rgb": ("rgb = RGBLed(44, 45, 46)", "rgb.set_color(1, 2, 3)"),
    "motor": ("m = DCMotor(22, 23, 24)", "m.set_speed(0.5)"),
    "buzzer": ("bz = Buzzer(8)", "bz.play_tone(440)"),
    "button": ("btn = Button(25)", "if btn.is_pressed():\n        sleep(1)"),
    "pot": ('pot = Potentiometer("A1")', "sleep(pot.read())"),
    "ultra": ("us = Ultrasonic(26, 27)", "sleep(us.measure_distance())"),
    # run-time // and % pull in the arithmetic helpers (and with them <math.h>, which is not a library to request)
    "math": ("kk = 7", "kk = (kk + 3) % 5 + kk // 2"),
}
PORTS = (None, "", "/dev/ttyUSB0", "COM12", "/dev/cu.usb modem 1")
_PORTS_DONE: Set[tuple] = set()
# what precedes the first device declaration: single-line imports, a parenthesised import over several lines, a
# docstring over several lines - each with and without a blank line before the declaration
PREAMBLES = {
    "plain": IMPORTS,
    "paren_import": (
        "from Reduino import target\n"
        'target("COM3")\n'
        "from Reduino.Actuators import (\n    Led,\n    Servo,\n)\n"
        "from Reduino.Utils import sleep\n"
        "from Reduino.Displays import (\n    LCD,\n)\n"
    ),
    "paren_import_last_two": (
        "from Reduino import target\n"
        'target("COM3")\n'
        "from Reduino.Utils import sleep\n"
        "from Reduino.Displays import LCD\n"
        "from Reduino.Actuators import (Led,\n    Servo)\n"
    ),
    "docstring": '"""Sketch.\n\nSeveral lines of text.\n"""\n' + IMPORTS + '"""another\nblock"""\n',
    "docstring_first_only": '"""Sketch.\nTwo lines."""\n',
    "backslash_import": (
        "from Reduino import target\n"
        'target("COM3")\n'
        "from Reduino.Utils import sleep\n"
        "from Reduino.Displays import LCD\n"
        "from Reduino.Actuators import Led, \\\n    Servo\n"
    ),
}
FIRST_DECLS = {
    "servo": ("arm = Servo(9)", "arm.write(90)", "Servo"),
    "lcd_par": ("lcd = LCD(rs=30, en=31, d4=32, d5=33, d6=34, d7=35)", 'lcd.line(0, "p")', "LiquidCrystal"),
    "lcd_i2c": ("lcd = LCD(i2c_addr=39)", 'lcd.line(0, "i")', "LiquidCrystal_I2C"),
    "led": ("led = Led(13)", "led.toggle()", None),
}
HEADER_TO_LIB = {"Servo.h": "Servo", "LiquidCrystal.h": "LiquidCrystal", "LiquidCrystal_I2C.h": "LiquidCrystal_I2C"}
KNOWN_HEADERS = set(HEADER_TO_LIB) | {"Arduino.h", "Wire.h", "cstring", "math.h"}


def build(n_servo_setup: int, n_servo_loop: int, n_par: int, n_i2c: int, others: Sequence[str], animate: bool, lcd_order: str, addr0: str = "39", header: str = "while True:") -> dict:
    setup: List[str] = []
    loop: List[str] = []
    loop_decls: List[str] = []
    pin = 2
    for i in range(n_servo_setup):
        setup.append(f"sa{i} = Servo({pin})")
        loop.append(f"sa{i}.write(90)")
        pin += 1
    for i in range(n_servo_loop):
        loop_decls.append(f"sb{i} = Servo({pin})")
        loop.append(f"sb{i}.write(45)")
        pin += 1
    par = [f"lp{i} = LCD(rs={30 + 6 * i}, en={31 + 6 * i}, d4={32 + 6 * i}, d5={33 + 6 * i}, d6={34 + 6 * i}, d7={35 + 6 * i})" for i in range(n_par)]
    i2c = [f"li{i} = LCD(i2c_addr={addr0 if i == 0 else 39 - i})" for i in range(n_i2c)]
    lcds = par + i2c if lcd_order == "par-first" else i2c + par
    setup += lcds
    for i in range(n_par):
        loop.append(f'lp{i}.line(0, "p")')
    for i in range(n_i2c):
        loop.append(f'li{i}.line(0, "i")')
    if animate and (n_par or n_i2c):
        name = "lp0" if n_par else "li0"
        setup.append(f'{name}.animate("scroll", 1, "hello world", speed_ms=100, loop=True)')
    for o in others:
        setup.append(OTHERS[o][0])
        loop.append(OTHERS[o][1])
    body = loop_decls + loop + ["sleep(5)"]
    src = IMPORTS + "\n".join(setup) + ("\n" if setup else "") + header + "\n" + "\n".join("    " + ln for ln in body) + "\n"
    want = set()
    if n_servo_setup + n_servo_loop:
        want.add("Servo")
    if n_par:
        want.add("LiquidCrystal")
    if n_i2c:
        want.add("LiquidCrystal_I2C")
    return {"src": src, "want": sorted(want), "desc": {"servo_setup": n_servo_setup, "servo_loop": n_servo_loop, "parallel": n_par, "i2c": n_i2c, "others": list(others), "animate": animate, "lcd_order": lcd_order,
                                                        "i2c_addr0": addr0, "loop_header": header}}


def generate(tier: str) -> List[dict]:
    cases = []
    other_subsets = [()] + [(o,) for o in OTHERS] + (list(itertools.combinations(OTHERS, 2)) if tier == "thorough" else [("button", "led"), ("button", "pot"), ("ultra", "rgb"), ("motor", "buzzer"), ("math", "led")])
    for ss, sl in [(a, b) for a in range(3) for b in range(3) if a + b <= 2]:
        for n_par in range(3):
            for n_i2c in range(3):
                for others in other_subsets:
                    for animate in ((False, True) if (n_par or n_i2c) else (False,)):
                        orders = ("par-first", "i2c-first") if (n_par and n_i2c) else ("par-first",)
                        for order in orders:
                            cases.append(build(ss, sl, n_par, n_i2c, others, animate, order))
    # every declaration order of up to four displays of both kinds (with and without a servo in between)
    for n in range(1, 5):
        for seq in itertools.product("PI", repeat=n):
            for servo_at in (None, 0, n):
                setup = []
                loop = []
                for i, kind in enumerate(seq):
                    if servo_at == i:
                        setup.append("sq = Servo(2)")
                    setup.append(f"lq{i} = LCD(rs={30 + 6 * i}, en={31 + 6 * i}, d4={32 + 6 * i}, d5={33 + 6 * i}, d6={34 + 6 * i}, d7={35 + 6 * i})" if kind == "P" else f"lq{i} = LCD(i2c_addr={39 - i})")
                    loop.append(f'lq{i}.line(0, "x")')
                if servo_at == n:
                    setup.append("sq = Servo(2)")
                if servo_at is not None:
                    loop.append("sq.write(90)")
                want = {"LiquidCrystal"} if "P" in seq else set()
                want |= {"LiquidCrystal_I2C"} if "I" in seq else set()
                want |= {"Servo"} if servo_at is not None else set()
                src = IMPORTS + "\n".join(setup) + "\nwhile True:\n" + "\n".join("    " + ln for ln in loop + ["sleep(5)"]) + "\n"
                cases.append({"src": src, "want": sorted(want), "desc": {"lcd_sequence": "".join(seq), "servo_at": servo_at}})
    # one name bound to devices of two different kinds, one after the other (before the loop, and the second one at the
    # top of the loop body when that kind may be declared there)
    kinds = {"button": ("Button(2)", None, "{n}.is_pressed()"), "servo": ("Servo(9)", "Servo", "{n}.write(30)"), "led": ("Led(13)", None, "{n}.toggle()"),
             "lcd_par": ("LCD(rs=30, en=31, d4=32, d5=33, d6=34, d7=35)", "LiquidCrystal", '{n}.line(0, "p")'), "lcd_i2c": ("LCD(i2c_addr=39)", "LiquidCrystal_I2C", '{n}.line(0, "i")')}
    for (k1, (d1, lib1, use1)), (k2, (d2, lib2, use2)) in itertools.permutations(kinds.items(), 2):
        for second_in_loop in ((False, True) if k2 in ("button", "servo", "led") else (False,)):
            use1_stmt = ("pressed1 = " if k1 == "button" else "") + use1.format(n="dev")
            use2_stmt = ("pressed2 = " if k2 == "button" else "") + use2.format(n="dev")
            if second_in_loop:
                src = IMPORTS + f"dev = {d1}\n{use1_stmt}\nwhile True:\n    dev = {d2}\n    {use2_stmt}\n    sleep(5)\n"
            else:
                src = IMPORTS + f"dev = {d1}\n{use1_stmt}\ndev = {d2}\nwhile True:\n    {use2_stmt}\n    sleep(5)\n"
            cases.append({"src": src, "want": sorted({lib for lib in (lib1, lib2) if lib}), "desc": {"rebind": [k1, k2], "second_in_loop": second_in_loop}})
    # spellings: the first I2C address written as 0 / hex / a constant expression; the main loop header with redundant
    # parentheses, spaces or a trailing comment (servos declared at the top of the body depend on that header)
    for ss, sl in [(a, b) for a in range(3) for b in range(3) if a + b <= 2]:
        for n_par in range(2):
            for n_i2c in range(3):
                for addr0 in (("39", "0", "0x00", "0x27", "0b0", "32 + 7", "00") if n_i2c else ("39",)):
                    for header in ("while True:", "while (True):", "while ( True ) :", "while(True):", "while True:  # forever", "while  True :"):
                        if addr0 == "39" and header == "while True:":
                            continue
                        for animate in ((False, True) if (n_par or n_i2c) and tier == "thorough" else (False,)):
                            cases.append(build(ss, sl, n_par, n_i2c, (), animate, "par-first", addr0, header))
    # layout of the lines before the first declaration
    for pname, pre in PREAMBLES.items():
        if pname == "docstring_first_only":
            pre = pre + IMPORTS.replace('"""', "")
        for (k1, (d1, u1, lib1)), (k2, (d2, u2, lib2)) in itertools.product(FIRST_DECLS.items(), repeat=2):
            if k1 == k2 or {k1, k2} == {"lcd_par", "lcd_i2c"}:
                continue
            for gap in ("", "\n", "# devices\n"):
                for second_after_block in (False, True):
                    mid = '"""note\nmore"""\n' if second_after_block else ""
                    src = pre + gap + d1 + "\n" + mid + d2 + "\nwhile True:\n    " + u1 + "\n    " + u2 + "\n    sleep(5)\n"
                    cases.append({"src": src, "want": sorted({lib for lib in (lib1, lib2) if lib}), "desc": {"preamble": pname, "first": k1, "second": k2, "gap": gap, "block_between": second_after_block}})
    return cases


def analyse(case: dict) -> Optional[str]:
    import Reduino
    from Reduino.transpile.emitter import emit
    from Reduino.transpile.parser import parse

    try:
        program = parse(case["src"])
        libs = list(Reduino._collect_required_libraries(program))
        text = emit(program)
    except Exception as exc:  # noqa: BLE001
        return f"transpilation failed: {type(exc).__name__}: {exc}"
    want = set(case["want"])
    if len(libs) != len(set(libs)):
        return f"lib_deps lists a library twice: {libs}"
    # what target() hands to PlatformIO: the lib_deps section of the written project
    import configparser
    import shutil
    import tempfile

    from Reduino.toolchain import pio

    tmp = tempfile.mkdtemp(prefix="c14-", dir=str(BUILD))
    try:
        pio.write_project(__import__("pathlib").Path(tmp), text, port="COM3", platform="atmelavr", board="uno", lib_deps=libs)
        cp = configparser.ConfigParser(interpolation=None)
        cp.read(str(__import__("pathlib").Path(tmp) / "platformio.ini"), encoding="utf-8")
        written = cp[cp.sections()[0]].get("lib_deps", "").split()
        if (__import__("pathlib").Path(tmp) / "src" / "main.cpp").read_text(encoding="utf-8") != text:
            return "src/main.cpp of the written project is not the emitted firmware"
    except Exception as exc:  # noqa: BLE001
        return f"writing the project failed: {type(exc).__name__}: {exc}"
    finally:
        shutil.rmtree(tmp, ignore_errors=True)
    if written != libs:
        return f"platformio.ini requests {written}, the script needs {libs}"
    # the same list must reach the file whatever the port argument looks like (unset, empty, a path, a name with blanks)
    sig = tuple(libs)
    if sig not in _PORTS_DONE:
        for port in PORTS:
            tmp = tempfile.mkdtemp(prefix="c14-", dir=str(BUILD))
            try:
                pio.write_project(__import__("pathlib").Path(tmp), text, port=port, platform="atmelavr", board="uno", lib_deps=libs)
                cp = configparser.ConfigParser(interpolation=None)
                cp.read(str(__import__("pathlib").Path(tmp) / "platformio.ini"), encoding="utf-8")
                written = cp[cp.sections()[0]].get("lib_deps", "").split()
            except Exception as exc:  # noqa: BLE001
                return f"writing the project with port={port!r} failed: {type(exc).__name__}: {exc}"
            finally:
                shutil.rmtree(tmp, ignore_errors=True)
            if written != libs:
                return f"platformio.ini written with port={port!r} requests {written}, the script needs {libs}"
        _PORTS_DONE.add(sig)
    includes = re.findall(r"^\s*#\s*include\s*[<\"]([^>\"]+)[>\"]", text, flags=re.M)
    unknown = [h for h in includes if h not in KNOWN_HEADERS]
    if unknown:
        return f"unknown headers included: {unknown}"
    dup = sorted({h for h in includes if includes.count(h) > 1})
    if dup:
        return f"headers included more than once: {dup}"
    inc_libs = {HEADER_TO_LIB[h] for h in includes if h in HEADER_TO_LIB}
    classes = set()
    for m in re.finditer(r"^\s*(Servo|LiquidCrystal_I2C|LiquidCrystal)\s+[A-Za-z_]\w*\s*(?:\(|;)", text, flags=re.M):
        classes.add(m.group(1))
    if "LiquidCrystal_I2C.h" in includes and "Wire.h" not in includes:
        return "LiquidCrystal_I2C.h included without Wire.h"
    if set(libs) != inc_libs:
        return f"lib_deps {sorted(libs)} != included library headers {sorted(inc_libs)}"
    if inc_libs != classes:
        return f"included library headers {sorted(inc_libs)} != instantiated library classes {sorted(classes)}"
    if classes != want:
        return f"script declares devices needing {sorted(want)}, firmware uses {sorted(classes)}"
    case["_text"] = text
    return None


def _compile(text: str) -> Optional[str]:
    ok, msgs = device.compile_single(text, syntax_only=True)
    return None if ok else "; ".join(msgs)[:300]


N_CHUNKS = 16


def _run_chunk(chunk: List[dict]):
    """forward twice, then reverse once, in this interpreter; returns (evaluations, [(position, label, repeat, message)], texts)"""
    texts: Dict[str, str] = {}
    found = []
    flagged = set()
    count = 0
    _PORTS_DONE.clear()
    for label, order, twice in (("forward", list(enumerate(chunk)), True), ("reverse", list(reversed(list(enumerate(chunk)))), False)):
        for pos, case in order:
            for rep in range(2 if twice else 1):
                count += 1
                err = analyse(case)
                if err is None:
                    prev = texts.get(case["src"])
                    if prev is not None and prev != case["_text"]:
                        err = "firmware text differs from the text produced for the same script earlier in this process"
                    texts.setdefault(case["src"], case["_text"])
                if err:
                    if pos not in flagged:
                        flagged.add(pos)
                        found.append((pos, label, rep, err))
                    break
    return count, found, texts


def main(tier: str, seed: int, only=None) -> int:
    report = Report(ID, LEVEL, tier, seed)
    cases = generate(tier)
    texts: Dict[str, str] = {}

    # The scripts are dealt into N_CHUNKS hands (every N-th script); each hand is evaluated in one interpreter, forward
    # twice and then in reverse, so that history dependence between different scripts shows within a hand.
    chunks = [list(range(i, len(cases), N_CHUNKS)) for i in range(N_CHUNKS)]
    jobs = [[cases[i] for i in idx] for idx in chunks]
    results = pipeline.pool().imap(_run_chunk, jobs) if pipeline.WORKERS > 1 else map(_run_chunk, jobs)
    for idx, (count, found, chunk_texts) in zip(chunks, results):
        report.evaluations += count
        report.outcomes["ok"] += count - len(found)
        for src, t in chunk_texts.items():
            texts.setdefault(src, t)
        for pos, label, rep, err in found:
            case = cases[idx[pos]]
            report.outcomes["violation"] += 1
            if len(report.violations) >= 60:
                if "stopped after 60 violations" not in report.caps_hit:
                    report.caps_hit.append("stopped after 60 violations")
                continue
            key = explore.history_key(ID, "script", [("src", (case["src"],), {})])
            report.violation(key, f"[{label}{' repeat' if rep else ''}] {case['desc']}: {err}\n  script:\n    " + "\n    ".join(case["src"].splitlines()[0 if "preamble" in case["desc"] else 7:]), {"case": {"src": case["src"], "want": case["want"], "desc": case["desc"]}, "message": err})
    # compile every distinct firmware with its own #include lines
    # one representative per (library signature, other devices) - the textual agreement above is per script
    reps: Dict[tuple, str] = {}
    for case in cases:
        t = texts.get(case["src"])
        if t is not None:
            d = case["desc"]
            if "servo_setup" not in d:
                reps.setdefault((tuple(case["want"]), json.dumps(d, sort_keys=True)), t)
                continue
            reps.setdefault((tuple(case["want"]), d["servo_setup"] > 0, d["servo_loop"] > 0, min(d["parallel"], 1), min(d["i2c"], 1), tuple(d["others"]), d["animate"]), t)
    uniq = sorted(set(reps.values())) if not report.violations else []
    results = pipeline.pool().imap(_compile, uniq, chunksize=8) if pipeline.WORKERS > 1 else map(_compile, uniq)
    by_text = {t: s for s, t in texts.items()}
    for text, err in zip(uniq, results):
        report.evaluations += 1
        report.distinct.add(text)
        if err:
            src = by_text[text]
            key = explore.history_key(ID, "compile", [("src", (src,), {})])
            report.outcomes["nocompile"] += 1
            report.violation(key, f"sketch does not compile with the headers it includes: {err}\n  script:\n    " + "\n    ".join(src.splitlines()[7:]), {"case": {"src": src, "want": [], "desc": {}}, "message": err, "compile": True})
    report.bounds = {"servos": "0-2 (every split between before-loop and loop-top)", "parallel LCDs": "0-2", "I2C LCDs": "0-2", "other devices": "all singles + 4 pairs (quick) / all pairs (thorough)", "animate": "with/without", "orders": "forward twice + reverse"}
    report.add_sample({"script": cases[len(cases) // 2]["src"].splitlines()[7:], "want": cases[len(cases) // 2]["want"]})
    return report.finish(
        rule="complete product of the stated device multiplicities and placements; oracle: lib_deps == included library headers == instantiated library classes == libraries needed by the declared devices, no duplicates, compiles against header-scoped mock classes; distinct = distinct firmware texts",
        assumptions=["LCDs are declared before the main loop, servos before it or at the top of its body (documented style)", "mock library headers define their class only when included"],
    )


def replay(path: str) -> int:
    data = json.loads(open(path).read())
    case = dict(data["case"])
    if data.get("compile"):
        from Reduino.transpile.emitter import emit
        from Reduino.transpile.parser import parse

        err = _compile(emit(parse(case["src"])))
    else:
        err = analyse(case) or analyse(case)
    print("replay:", err)
    if err:
        print(f"VIOLATION property={ID} replay={path}")
        return 1
    return 0
