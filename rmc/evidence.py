"""Evidence file writer (schema: /root/.vp/EVIDENCE.schema.json)."""
from __future__ import annotations

import json
import os
import time
from pathlib import Path
from typing import Any, Dict, List

ROOT = Path(__file__).resolve().parent.parent

COMMON_ASSUMPTIONS = [
    "firmware is compiled with host clang++ (-std=gnu++17, exceptions on) against the mock Arduino core in /verif/mock, not avr-gcc and the real core/libraries (none is installed)",
    "host int is 32-bit (AVR int is 16-bit): alphabets keep |values| < 2^15",
    "where C++ leaves the order of evaluation open (arguments of one helper call), clang++ evaluates left to right like Python; avr-g++ may not - the device oracle cannot see that",
    "the mock core (/verif/mock) and the CPython interpreter are the trusted base",
]


def write(property_id: str, *, tier: str, seed: int, level: str, coverage: Dict[str, Any], wall_s: float,
          violations: int, assumptions: List[str], extra: Dict[str, Any] | None = None) -> Path:
    out = {
        "property_id": property_id,
        "tier": tier,
        "seed": int(seed),
        "level": level,
        "coverage": coverage,
        "assumptions": assumptions,
        "wall_s": round(float(wall_s), 3),
        "violations": int(violations),
    }
    if extra:
        out.update(extra)
    # VERIF_EVIDENCE_DIR: developer aid for runs against scratch copies (seed sweeps), so that they do not overwrite the
    # evidence of the real tree
    base = Path(os.environ["VERIF_EVIDENCE_DIR"]) if os.environ.get("VERIF_EVIDENCE_DIR") else ROOT / "evidence"
    path = base / f"{property_id}.json"
    path.parent.mkdir(parents=True, exist_ok=True)
    tmp = path.with_suffix(f".json.tmp{os.getpid()}")
    tmp.write_text(json.dumps(out, indent=1, sort_keys=False, default=str) + "\n", encoding="utf-8")
    os.replace(tmp, path)
    return path
