"""Common driver for every check: explore, match known findings, write replays + evidence, exit code."""
from __future__ import annotations

import hashlib
import json
import os
import sys
import time
from collections import Counter
from pathlib import Path
from typing import Any, Callable, Dict, Iterable, Iterator, List, Optional

from . import evidence, findings

ROOT = Path(__file__).resolve().parent.parent
MAX_VIOLATION_LINES = 25


def tier_from_env(default: str = "quick") -> str:
    return os.environ.get("VERIF_TIER", default)


def seed_from_env() -> int:
    try:
        return int(os.environ.get("VERIF_SEED", "0"))
    except ValueError:
        return 0


class Report:
    """Accumulates results of one check run."""

    def __init__(self, property_id: str, level: str, tier: str, seed: int):
        self.property_id = property_id
        self.level = level
        self.tier = tier
        self.seed = seed
        self.t0 = time.time()
        self.outcomes: Counter = Counter()
        self.violations: List[dict] = []
        self.known_hits: Dict[str, List[str]] = {}
        self.resolved: List[str] = []
        self.regressions: List[dict] = []
        self.samples: List[Any] = []
        self.notes: List[str] = []
        self.evaluations = 0
        self.distinct: set = set()
        self.states: set = set()
        self.transitions = 0
        self.traces_validated = 0
        self.caps_hit: List[str] = []
        self.bounds: Dict[str, Any] = {}
        self.extra_cov: Dict[str, Any] = {}
        self._findings = findings.load(property_id)
        self._open = findings.index_open(self._findings)
        self.harness_errors: List[str] = []

    # ------------------------------------------------------------------
    def known(self, key: str) -> Optional[dict]:
        return self._open.get(key)

    def all_findings(self) -> List[dict]:
        return self._findings

    def add_sample(self, sample: Any, limit: int = 8) -> None:
        if len(self.samples) < limit:
            self.samples.append(sample)

    def violation(self, key: str, summary: str, replay: dict) -> None:
        """Record a failing case: suppressed iff its exact key is listed under an open finding."""
        f = self.known(key)
        if f is not None:
            self.known_hits.setdefault(f["id"], []).append(key)
            return
        path = self.write_replay(key, replay)
        self.violations.append({"key": key, "summary": summary[:600], "replay": str(path)})

    def write_replay(self, key: str, replay: dict) -> Path:
        d = ROOT / "replays" / self.property_id
        d.mkdir(parents=True, exist_ok=True)
        path = d / f"{key}.json"
        replay = dict(replay, property=self.property_id, key=key)
        path.write_text(json.dumps(replay, indent=1, default=str) + "\n", encoding="utf-8")
        return path

    # ------------------------------------------------------------------
    def finish(self, *, rule: str, assumptions: List[str], exhaustive: bool = True) -> int:
        wall = time.time() - self.t0
        # KNOWN-FINDING lines: one per open finding that still fails
        for f in self._findings:
            if f.get("status") == "open":
                if f["id"] in self.known_hits:
                    print(f"KNOWN-FINDING: property={self.property_id} {f['id']}: {f['what']}")
                else:
                    print(f"RESOLVED (informational): {f['id']} no longer fails: {f['what']}")
        for msg in self.harness_errors[:5]:
            print("HARNESS-ERROR:", msg[:1000])
        shown = 0
        for v in self.violations:
            if shown < MAX_VIOLATION_LINES:
                print(f"VIOLATION property={self.property_id} replay={v['replay']}")
                print(f"  {v['summary']}")
            shown += 1
        if shown > MAX_VIOLATION_LINES:
            print(f"  ... {shown - MAX_VIOLATION_LINES} more violations recorded in the evidence file")
        cov: Dict[str, Any] = {
            "evaluations": int(self.evaluations),
            "distinct_nontrivial": int(len(self.distinct)),
            "rule": rule,
            "samples": self.samples or ["(no sample recorded)"],
            "exhaustive": bool(exhaustive and not self.caps_hit),
            "outcomes": dict(self.outcomes),
            "bounds": self.bounds,
            "caps_hit": self.caps_hit,
            "known_findings_hit": {k: len(v) for k, v in self.known_hits.items()},
            "violation_samples": self.violations[:10],
        }
        if self.level == "model_checking":
            cov["states"] = int(len(self.states))
            cov["transitions"] = int(self.transitions)
            cov["traces_validated_against_impl"] = int(self.traces_validated)
        cov.update(self.extra_cov)
        evidence.write(self.property_id, tier=self.tier, seed=self.seed, level=self.level, coverage=cov,
                       wall_s=wall, violations=len(self.violations), assumptions=assumptions)
        status = "FAIL" if (self.violations or self.harness_errors) else "ok"
        print(f"[{self.property_id}] {status} tier={self.tier} evaluations={self.evaluations} distinct={len(self.distinct)} "
              f"outcomes={dict(self.outcomes)} violations={len(self.violations)} known={list(self.known_hits)} wall={wall:.1f}s")
        if self.harness_errors:
            return 2
        return 1 if self.violations else 0
