#!/bin/bash
# usage: tools/verify_all_seeds.sh [-j N] [names...]  -- re-confirm every kept seed against the current /repo HEAD, N at a time:
# `git apply` takes the patch, the full test suite passes with it, the demo fails with it and passes without it.
# Scratch worktrees live under /tmp and are removed.  Prints one line per seed.
jobs=6
if [ "${1:-}" = "-j" ]; then jobs="$2"; shift 2; fi
names="$@"; [ -z "$names" ] && names=$(ls /verif/seeded)
one() {
  n="$1"; d=/verif/seeded/$n
  wt=$(mktemp -d /tmp/wt-va-XXXXXX); rmdir "$wt"
  git -C /repo worktree add -q --detach "$wt" HEAD || { echo "$n WORKTREE-FAILED"; return; }
  demo=$(ls "$d"/demo.py "$d"/test_demo.py 2>/dev/null | head -1)
  run_demo() { if [[ "$demo" == *test_demo.py ]]; then (cd "$wt" && REDUINO_SRC="$wt/src" REDUINO_ROOT="$wt" timeout 600 /venv/bin/python -m pytest -q -p no:cacheprovider "$demo" >/dev/null 2>&1); else (cd "$wt" && PYTHONPATH="$wt/src" REDUINO_SRC="$wt/src" REDUINO_ROOT="$wt" timeout 600 /venv/bin/python "$demo" >/dev/null 2>&1); fi; }
  run_demo; clean=$?
  if ! git -C "$wt" apply "$d/patch.diff" 2>/dev/null; then echo "$n APPLY-FAILED"; git -C /repo worktree remove --force "$wt"; return; fi
  tests=$(cd "$wt" && timeout 1200 /venv/bin/python -m pytest -q -p no:cacheprovider 2>&1 | grep -c "failed\|error" )
  run_demo; patched=$?
  git -C /repo worktree remove --force "$wt"
  if [[ $clean -eq 0 && $patched -ne 0 && $tests -eq 0 ]]; then echo "$n CONFIRMED"; else echo "$n NOT-CONFIRMED clean=$clean patched=$patched tests_bad=$tests"; fi
}
export -f one
printf "%s\n" $names | xargs -P "$jobs" -I{} bash -c 'one {}'
