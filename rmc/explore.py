"""Explicit-state breadth-first exploration of *real* objects (DESIGN.md §1.4).

A state is a live object; a transition applies one operation (method name + arguments) to a deep copy
of it.  States are deduplicated on a canonical tuple of public observations, invariants are evaluated
in every state and on every transition (including transitions that raise), and the search runs until
the frontier is empty (fixpoint) or a stated cap is hit.  BFS order makes the first counterexample the
shortest; every state remembers the operation history that reaches it so a violation is replayable on
a fresh object.
"""
from __future__ import annotations

import copy
import hashlib
import json
from collections import deque
from dataclasses import dataclass, field
from typing import Any, Callable, Dict, Hashable, List, Optional, Sequence, Tuple

Op = Tuple[str, tuple, dict]  # (method, args, kwargs)


def op_text(op: Op) -> str:
    name, args, kwargs = op
    parts = [repr(a) for a in args] + [f"{k}={v!r}" for k, v in kwargs.items()]
    return f"{name}({', '.join(parts)})"


def history_key(check_id: str, subject: str, history: Sequence[Op]) -> str:
    payload = json.dumps({"c": check_id, "s": subject, "h": [op_text(o) for o in history]}, sort_keys=True)
    return hashlib.sha256(payload.encode()).hexdigest()[:24]


@dataclass
class StepResult:
    exc: Optional[BaseException]
    value: Any
    effects: List[Any]  # whatever the environment recorded during the call (sleeps, samples, ...)


@dataclass
class Violation:
    subject: str
    history: List[Op]
    message: str


@dataclass
class Stats:
    states: int = 0
    transitions: int = 0
    raising_transitions: int = 0
    max_depth: int = 0
    fixpoint: bool = False
    distinct_outcomes: int = 0


class Explorer:
    def __init__(
        self,
        subject: str,
        make_initial: Callable[[], Any],
        ops: Sequence[Op],
        canon: Callable[[Any], Hashable],
        apply: Callable[[Any, Op], StepResult],
        check_state: Callable[[Any], Optional[str]],
        check_step: Callable[[Hashable, Any, Op, StepResult, Any], Optional[str]],
        *,
        max_states: int = 200000,
        max_depth: int = 10 ** 9,
        aux_init: Callable[[], Any] = lambda: None,
        aux_step: Callable[[Any, Op, StepResult], Any] = lambda aux, op, res: aux,
        aux_canon: Callable[[Any], Hashable] = lambda aux: None,
    ) -> None:
        self.subject = subject
        self.make_initial = make_initial
        self.ops = list(ops)
        self.canon = canon
        self.apply = apply
        self.check_state = check_state
        self.check_step = check_step
        self.max_states = max_states
        self.max_depth = max_depth
        self.aux_init = aux_init
        self.aux_step = aux_step
        self.aux_canon = aux_canon
        self.stats = Stats()
        self.violations: List[Violation] = []
        self.samples: List[List[str]] = []

    def run(self, stop_after_violations: int = 50) -> Stats:
        init = self.make_initial()
        aux0 = self.aux_init()
        key0 = (self.canon(init), self.aux_canon(aux0))
        seen: Dict[Hashable, Tuple[Optional[Hashable], Optional[Op]]] = {key0: (None, None)}
        frontier = deque([(init, aux0, key0, 0)])
        outcomes = set()
        err = self.check_state(init)
        if err:
            self.violations.append(Violation(self.subject, [], f"initial state: {err}"))
        while frontier:
            obj, aux, key, depth = frontier.popleft()
            self.stats.max_depth = max(self.stats.max_depth, depth)
            if depth >= self.max_depth:
                continue
            for op in self.ops:
                nxt = copy.deepcopy(obj)
                res = self.apply(nxt, op)
                self.stats.transitions += 1
                if res.exc is not None:
                    self.stats.raising_transitions += 1
                history = None
                err = self.check_step(key[0], nxt, op, res, aux)
                if err is None:
                    err = self.check_state(nxt)
                naux = self.aux_step(aux, op, res)
                nkey = (self.canon(nxt), self.aux_canon(naux))
                outcomes.add((type(res.exc).__name__ if res.exc else "ok", nkey[0]))
                if err is not None:
                    history = self._history(seen, key) + [op]
                    self.violations.append(Violation(self.subject, history, err))
                    if len(self.violations) >= stop_after_violations:
                        self.stats.states = len(seen)
                        self.stats.distinct_outcomes = len(outcomes)
                        return self.stats
                if err is not None:
                    continue  # do not explore beyond a violating state (its successors would only echo it)
                if nkey not in seen:
                    if len(seen) >= self.max_states:
                        self.stats.states = len(seen)
                        self.stats.distinct_outcomes = len(outcomes)
                        return self.stats
                    seen[nkey] = (key, op)
                    frontier.append((nxt, naux, nkey, depth + 1))
                    if len(self.samples) < 4 and depth + 1 >= 2:
                        self.samples.append([op_text(o) for o in self._history(seen, nkey)])
        self.stats.states = len(seen)
        self.stats.fixpoint = True
        self.stats.distinct_outcomes = len(outcomes)
        return self.stats

    @staticmethod
    def _history(seen, key) -> List[Op]:
        out: List[Op] = []
        while True:
            parent, op = seen[key]
            if parent is None:
                break
            out.append(op)
            key = parent
        out.reverse()
        return out


def replay_history(make_initial: Callable[[], Any], apply: Callable[[Any, Op], StepResult], history: Sequence[Op]):
    """Re-run an operation history on a fresh object; returns (object, [StepResult])."""
    obj = make_initial()
    results = []
    for op in history:
        results.append(apply(obj, tuple(op) if not isinstance(op, tuple) else op))
    return obj, results
