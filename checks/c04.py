"""C04 — actuator commands: firmware drives pins exactly as the host simulation predicts.

All operation sequences of length <= k per device (Led, RGBLed, Servo default + narrow calibration,
DCMotor) over every method x boundary/in-range argument classes, every argument given as a literal and
as a run-time value, with every getter printed after every operation (synchronisation points).
In-range sequences: firmware trace == CPython/host-class trace (levels held during every wait, getter
values, final levels).  Out-of-range arguments: (1) clamp monitor - nothing outside the documented
limits ever reaches a pin; (2) metamorphic: the firmware trace equals the firmware trace of the same
sequence with the argument replaced by its clamped value.
"""
from __future__ import annotations

import itertools
import json
from typing import Dict, Iterator, List, Optional, Sequence, Tuple

from rmc import evidence, observe, pipeline
from rmc.runner import Report
from . import common

ID = "C04"
LEVEL = "model_checking"
MOD = "checks.c04"

PRO = common.PROLOGUE + "from Reduino.Actuators import Led, RGBLed, Servo, DCMotor\n"

# An operation is (method, [args], {kwargs}, clamped_args or None).  Arguments are numbers; the script
# builder renders them as literals or as run-time reads.


def _op(name, *args, clamp=None, recv=None, **kwargs):
    return (name, list(args), dict(kwargs), clamp, recv)


def _on(recv, ops):
    """The same operations addressed to a specific instance (two devices of one kind)."""
    return [(o[0], o[1], o[2], o[3], recv) for o in ops]


LED_OPS = [
    _op("on"), _op("off"), _op("toggle"),
    _op("set_brightness", 0), _op("set_brightness", 1), _op("set_brightness", 128), _op("set_brightness", 254), _op("set_brightness", 255),
    _op("set_brightness", -1, clamp=[0]), _op("set_brightness", 256, clamp=[255]), _op("set_brightness", 1000, clamp=[255]),
    _op("blink", 7), _op("blink", 3, times=2), _op("blink", 0, times=1), _op("blink", 5, 3),
    _op("fade_in", 100, 3), _op("fade_in", step=60, delay_ms=0), _op("fade_in", 300, 2), _op("fade_in"),
    _op("fade_out", 100, 3), _op("fade_out", step=60, delay_ms=1), _op("fade_out", 255, 4),
    _op("set_brightness", "{n}.get_brightness() // 2"), _op("blink", "{n}.get_brightness() // 16", times=2), _op("fade_in", 100, "{n}.get_brightness() // 64"),
    _op("set_brightness", "255 - {n}.get_brightness()"),
    # patterns: 0 = off, 1 = fully on, anything else a PWM duty; the tracked state afterwards is the last entry's
    _op("flash_pattern", [1, 0]), _op("flash_pattern", [0, 1]), _op("flash_pattern", [1]), _op("flash_pattern", [255, 0, 128], 3), _op("flash_pattern", [1, 0, 1], delay_ms=5), _op("flash_pattern", [0, 200, 1], 2),
    _op("flash_pattern", [True, False, True], 1), _op("flash_pattern", [2, 1], 0),
]
LED_GETTERS = ["{n}.get_state()", "{n}.get_brightness()"]

RGB_OPS = [
    _op("on"), _op("off"), _op("on", 10, 20, 30), _op("set_color", 0, 128, 255), _op("set_color", 255, 255, 255), _op("set_color", 1, 0, 0),
    _op("set_color", 300, -5, 128, clamp=[255, 0, 128]), _op("on", 256, 0, -1, clamp=[255, 0, 0]),
    _op("fade", 255, 0, 0, 10, 3), _op("fade", 10, 20, 30, duration_ms=9, steps=3), _op("fade", 0, 0, 0, 0, 5), _op("fade", 7, 200, 100, 20, 5),
    _op("fade", 50, 60, 70, 6, 1), _op("fade", 300, 0, -20, 6, 3, clamp=[255, 0, 0, 6, 3]),
    _op("blink", 1, 2, 3, 2, 4), _op("blink", 255, 0, 255, times=1, delay_ms=0), _op("blink", 9, 9, 9),
    # partially specified colours: the omitted components take the signature defaults
    _op("on", 10), _op("on", 10, 20), _op("on", blue=5), _op("on", green=7, red=3), _op("on", 0), _op("on", 0, 0),
]
RGB_GETTERS: List[str] = []

SERVO_OPS = {
    "default": [
        _op("write", 0), _op("write", 45.5), _op("write", 90), _op("write", 180), _op("write", 33),
        _op("write", 200, clamp=[180]), _op("write", -10, clamp=[0]),
        _op("write_us", 544), _op("write_us", 1500), _op("write_us", 2400), _op("write_us", 1000.5),
        _op("write_us", 100, clamp=[544]), _op("write_us", 3000, clamp=[2400]),
    ],
    "narrow": [
        _op("write", 10), _op("write", 60), _op("write", 90.5), _op("write", 170),
        _op("write", 0, clamp=[10]), _op("write", 180, clamp=[170]),
        _op("write_us", 1000), _op("write_us", 1250), _op("write_us", 2000),
        _op("write_us", 544, clamp=[1000]), _op("write_us", 2400, clamp=[2000]),
    ],
}
SERVO_GETTERS = ["{n}.read()", "{n}.read_us()"]
SERVO_CFG = {"default": "", "narrow": ", min_angle=10, max_angle=170, min_pulse_us=1000, max_pulse_us=2000"}
SERVO_BOUNDS = {"default": (0, 180, 544, 2400), "narrow": (10, 170, 1000, 2000)}

MOTOR_OPS = [
    _op("set_speed", 0.5), _op("set_speed", -1), _op("set_speed", 0), _op("set_speed", 0.25), _op("set_speed", 1),
    _op("set_speed", 2, clamp=[1]), _op("set_speed", -3.5, clamp=[-1]),
    _op("backward"), _op("backward", 0.5), _op("backward", -0.75), _op("backward", 4, clamp=[1]),
    _op("stop"), _op("coast"), _op("invert"),
    _op("ramp", -1, 40), _op("ramp", 0.5, 0), _op("ramp", 0, 20), _op("ramp", 3, 20, clamp=[1, 20]),
    _op("run_for", 30, 0.5), _op("run_for", 0, -1), _op("run_for", 12, 2, clamp=[12, 1]),
    # arguments that read the motor's own state: evaluated once, before the call changes that state
    _op("run_for", "40 * {n}.get_speed()", -1.0), _op("run_for", "20 + 20 * {n}.get_applied_speed()", "0 - {n}.get_speed()"),
    _op("set_speed", "0 - {n}.get_speed()"), _op("ramp", "{n}.get_speed() * -1", 20), _op("ramp", 1, "40 * {n}.get_speed()"), _op("backward", "{n}.get_speed() / 2"),
]
MOTOR_GETTERS = ["{n}.get_speed()", "{n}.get_applied_speed()", "{n}.is_inverted()", "{n}.get_mode()"]

def _pick(ops, idxs):
    return [ops[i] for i in idxs]


DEVICES = {
    # two instances of one kind: state variables and pins must not be mixed up between them
    "led_pair": ("la = Led(9)\nlb = Led(6)", ("la", "lb"), _on("la", _pick(LED_OPS, [0, 2, 5, 12, 15, 19])) + _on("lb", _pick(LED_OPS, [0, 2, 6, 12, 16, 20])), LED_GETTERS),
    "rgb_pair": ("ra = RGBLed(3, 5, 6)\nrb = RGBLed(9, 10, 11)", ("ra", "rb"), _on("ra", _pick(RGB_OPS, [1, 2, 3, 8, 14])) + _on("rb", _pick(RGB_OPS, [1, 3, 5, 11, 15])), RGB_GETTERS),
    "servo_pair": ("sa = Servo(10)\nsb = Servo(12, min_angle=10, max_angle=170, min_pulse_us=1000, max_pulse_us=2000)", ("sa", "sb"),
                   _on("sa", _pick(SERVO_OPS["default"], [1, 3, 8])) + _on("sb", _pick(SERVO_OPS["narrow"], [1, 3, 7])), SERVO_GETTERS),
    "motor_pair": ("ma = DCMotor(4, 7, 11)\nmb = DCMotor(2, 8, 5)", ("ma", "mb"), _on("ma", _pick(MOTOR_OPS, [0, 1, 11, 13, 14])) + _on("mb", _pick(MOTOR_OPS, [3, 8, 12, 13, 18])), MOTOR_GETTERS),
    "led": ("led = Led(9)", "led", LED_OPS, LED_GETTERS),
    "rgb": ("rgb = RGBLed(3, 5, 6)", "rgb", RGB_OPS, RGB_GETTERS),
    "servo": ("sv = Servo(10)", "sv", SERVO_OPS["default"], SERVO_GETTERS),
    "servo_narrow": ("sv = Servo(10" + SERVO_CFG["narrow"] + ")", "sv", SERVO_OPS["narrow"], SERVO_GETTERS),
    "motor": ("m = DCMotor(4, 7, 11)", "m", MOTOR_OPS, MOTOR_GETTERS),
}


def _fmt(v) -> str:
    return repr(v)


def render_op(name: str, op, mode: str, feed: List[int], pre: List[str]) -> str:
    """mode 'lit': literal arguments; 'rt': every numeric argument is a run-time value held in a
    variable that was read from analog_read just before the call (floats travel scaled by 100)."""
    meth, args, kwargs = op[0], op[1], op[2]
    if len(op) > 4 and op[4]:
        name = op[4]

    def val(v):
        if isinstance(v, str):
            return v.replace("{n}", name)  # an expression over the device's own state, evaluated at the call
        if isinstance(v, list):
            return repr(v)
        if mode == "lit":
            return _fmt(v)
        var = f"v{len(feed)}"
        if isinstance(v, float) or (isinstance(v, int) and (v < 0)):
            feed.append(int(round(v * 100)) + 100000)
            pre.append(f'{var} = (analog_read("A0") - 100000) / 100')
        else:
            feed.append(int(v))
            pre.append(f'{var} = analog_read("A0")')
        return var

    parts = [val(a) for a in args] + [f"{k}={val(v)}" for k, v in kwargs.items()]
    return f"{name}.{meth}({', '.join(parts)})"


def build_case(dev: str, seq: Sequence[int], mode: str, use_clamped: bool, placement: str) -> Optional[dict]:
    decl, name, ops, getters = DEVICES[dev]
    feed: List[int] = []
    lines: List[str] = []
    clamped_any = False
    for k, idx in enumerate(seq):
        op = ops[idx]
        if op[3] is not None:
            clamped_any = True
            if use_clamped:
                op = (op[0], list(op[3]) + op[1][len(op[3]):], op[2], None, op[4] if len(op) > 4 else None)
        pre: List[str] = []
        names = name if isinstance(name, tuple) else (name,)
        call = render_op(names[0], op, mode, feed, pre)
        lines.extend(pre)
        lines.append(call)
        for nm in names:
            for g in getters:
                lines.append(f"mon.write({g.format(n=nm)})")
        if not getters:
            lines.append(f'mon.write("#{k}")')
    if mode == "rt" and not feed:
        return None
    if use_clamped and not clamped_any:
        return None
    if placement == "setup":
        src = common.script(decl.split("\n") + lines, prologue=PRO)
        passes = 0
    elif placement == "rebind":
        # the name is bound to a second device (other pins) between the two commands: each command drives the device the
        # name stood for when it ran
        second = REBIND_DECL.get(dev)
        if second is None or len(seq) != 2:
            return None
        per_op = len(lines) // 2
        src = common.script(decl.split("\n") + lines[:per_op] + [second] + lines[per_op:], prologue=PRO)
        passes = 0
    elif placement == "in_if":
        # the commands sit in a branch (taken at run time) and nowhere else
        src = common.script(decl.split("\n") + ["gate = analog_read(\"A5\")", "if gate >= 0:"] + common.indent(lines), prologue=PRO)
        passes = 0
    elif placement == "helper_above_looptop":
        # ... and the device itself is declared at the top of the main loop's body
        src = common.script(["def act():"] + common.indent(lines), decl.split("\n") + ["act()"], prologue=PRO)
        passes = 1
    elif placement == "helper_above":
        # the commands live in a helper that is defined ABOVE the device declaration and called after it
        src = common.script(["def act():"] + common.indent(lines) + decl.split("\n") + ["act()"], ["act()"], prologue=PRO)
        passes = 1
    else:
        src = common.script(decl.split("\n"), lines, prologue=PRO)
        passes = 2
        feed = feed * 2
    run = {"passes": passes}
    if feed:
        run["ar"] = {"A0": feed}
    return {"id": f"{dev}:{mode}:{placement}:{'c' if use_clamped else 'o'}:{seq}", "src": src, "runs": [run], "dev": dev,
            "oor": clamped_any, "pair": f"{dev}:{mode}:{placement}:{seq}" if clamped_any else None}


REBIND_DECL = {"led": "led = Led(2 * 3)", "rgb": "rgb = RGBLed(9, 10, 11)", "motor": "m = DCMotor(2, 8, 5)"}  # (a re-bound Servo keeps its first pin: the KF-C05-rebind class)
CORES = {
    "led_pair": list(range(12)), "rgb_pair": list(range(10)), "servo_pair": list(range(6)), "motor_pair": list(range(10)),
    "led": [0, 1, 2, 5, 9, 12, 15, 19],
    "rgb": [1, 2, 3, 6, 8, 11, 14],
    "servo": [1, 3, 5, 8, 10, 12],
    "servo_narrow": [1, 3, 4, 7, 10],
    "motor": [0, 1, 6, 9, 11, 12, 13, 14, 18],
}


CORES["led"] += [i for i, o in enumerate(LED_OPS) if o[0] == "flash_pattern"][:4] + [i for i, o in enumerate(LED_OPS) if o[0] == "fade_out"][:1]


# -- order of evaluation: every numeric argument is an expression over nxt() (1, 2, 3, ... in the order the calls are
# evaluated), the arguments are written in every way Python accepts (first j positionally, the rest as keywords in every
# order); host and firmware must agree, i.e. the firmware evaluates the arguments in the order written
ORDER_METHODS = [
    ("led", "blink", ["duration_ms", "times"]), ("led", "fade_in", ["step", "delay_ms"]), ("led", "fade_out", ["step", "delay_ms"]),
    ("rgb", "set_color", ["red", "green", "blue"]), ("rgb", "on", ["red", "green", "blue"]), ("rgb", "blink", ["red", "green", "blue", "times", "delay_ms"]),
    ("rgb", "fade", ["red", "green", "blue", "duration_ms", "steps"]), ("motor", "ramp", ["target_speed", "duration_ms"]), ("motor", "run_for", ["duration_ms", "speed"]),
]
ORDER_EXPR = {"duration_ms": "nxt() * 10", "delay_ms": "nxt() * 10", "times": "nxt()", "steps": "nxt() + 1", "step": "nxt() * 40", "red": "nxt() * 20", "green": "nxt() * 20", "blue": "nxt() * 20",
              "target_speed": "nxt() / 10", "speed": "nxt() / 10"}
ORDER_DEFS = ["cur = 0", "def nxt():", "    global cur", "    cur = cur + 1", "    return cur"]


def gen_order(tier: str) -> Iterator[dict]:
    for dev, meth, params in ORDER_METHODS:
        decl, name, _, getters = DEVICES[dev]
        shapes = []
        for j in range(len(params) + 1):
            for perm in itertools.permutations(params[j:]):
                shapes.append((j, perm))
        if tier != "thorough" and len(params) == 5:
            # five parameters: all orders of the keywords when at most two are positional is 150 shapes; quick keeps the
            # shapes whose keyword part is a rotation or the reversal of the signature order
            keep = []
            for j, perm in shapes:
                rest = tuple(params[j:])
                rots = {rest[k:] + rest[:k] for k in range(len(rest))} | {rest[::-1]}
                if perm in rots:
                    keep.append((j, perm))
            shapes = keep
        for j, perm in shapes:
            parts = [ORDER_EXPR[p] for p in params[:j]] + [f"{p}={ORDER_EXPR[p]}" for p in perm]
            lines = [f"{name}.{meth}({', '.join(parts)})"] + [f"mon.write({g.format(n=name)})" for g in getters]
            # (fade only before the loop: in a second pass the larger step counts reach exact .5 interpolation points,
            #  which is KF-C04-rgb-fade-half-rounding's subject, not this space's)
            for placement in (("setup", "loop") if len(perm) == len(params) and meth != "fade" else ("setup",)):
                if placement == "setup":
                    src = common.script(ORDER_DEFS + decl.split("\n") + lines, prologue=PRO)
                else:
                    src = common.script(ORDER_DEFS + decl.split("\n"), lines, prologue=PRO)
                yield {"id": f"order:{dev}:{meth}:{j}:{','.join(perm)}:{placement}", "src": src, "runs": [{"passes": 0 if placement == "setup" else 2}], "dev": dev, "oor": False, "pair": None}


def generate(tier: str, only=None) -> Iterator[dict]:
    if not only or "order" in only:
        yield from gen_order(tier)
    for dev, (decl, name, ops, getters) in DEVICES.items():
        if only and dev not in only:
            continue
        n = len(ops)
        seqs = list(itertools.chain.from_iterable(itertools.product(range(n), repeat=r) for r in range(1, 3)))
        core = CORES[dev]
        if tier == "thorough":
            seqs += list(itertools.product(range(n), repeat=3))
            seqs += list(itertools.product(core[:6], repeat=4))
        else:
            seqs += list(itertools.product(core, repeat=3))
        seen = set()
        for seq in seqs:
            if seq in seen:
                continue
            seen.add(seq)
            for mode in ("lit", "rt"):
                placements = ("setup", "loop") if (len(seq) == 1 or tier == "thorough") else ("setup",)
                if mode == "lit" and len(seq) == 1:
                    placements = placements + ("helper_above", "helper_above_looptop")
                if mode == "lit" and len(seq) == 2 and all(i in core for i in seq):
                    placements = placements + ("helper_above", "in_if") + (("rebind",) if dev in REBIND_DECL else ())
                if mode == "rt" and len(seq) > 2 and not (tier == "thorough" and len(seq) == 3 and all(i in core for i in seq)):
                    continue
                for placement in placements:
                    if placement == "loop" and len(seq) > 2:
                        continue
                    case = build_case(dev, seq, mode, False, placement)
                    if case is None:
                        continue
                    yield case
                    if case["oor"]:
                        twin = build_case(dev, seq, mode, True, placement)
                        if twin is not None:
                            yield twin


def clamp_monitor(case, dev_run) -> Optional[str]:
    dev = case["dev"]
    for ev in dev_run.events:
        if ev.kind == "aw":
            v = int(ev.args[1])
            if not 0 <= v <= 255:
                return f"analogWrite({ev.args[0]}, {v}) outside 0-255"
        elif ev.kind in ("servo_write", "servo_us") and dev.startswith("servo"):
            lo_a, hi_a, lo_p, hi_p = SERVO_BOUNDS["narrow" if dev.endswith("narrow") else "default"]
            v = int(ev.args[2])
            if ev.kind == "servo_write" and not lo_a <= v <= hi_a:
                return f"Servo.write({v}) outside [{lo_a}, {hi_a}]"
            if ev.kind == "servo_us" and not lo_p <= v <= hi_p:
                return f"Servo.writeMicroseconds({v}) outside [{lo_p}, {hi_p}]"
    return None


def judge(case, tr, dev_runs, host_runs):
    if tr.status in ("reject", "syntax"):
        return "reject", tr.error or ""
    if tr.status != "ok":
        return "transpile_" + tr.status, tr.error or ""
    if dev_runs is None:
        return "nocompile", "; ".join(case.get("_compile_errors", []))[:300]
    for dr in dev_runs:
        if not dr.ok:
            return "violation", f"firmware did not run cleanly: {dr.faults[:2]} {dr.sanitizer[:2]} exit={dr.exit_code}"
        err = clamp_monitor(case, dr)
        if err:
            return "violation", "clamp: " + err
    hr = host_runs[0]
    if hr.error is not None:
        if case["oor"] and hr.error_type in ("ValueError", "TypeError"):
            return "clamp_only", ""
        return "skip_host_" + (hr.error_type or "error"), hr.error or ""
    diff = observe.compare(observe.reduce_host(hr.events), observe.reduce_device(dev_runs[0]), check_lcd=False)
    if diff:
        return "violation", f"inputs={json.dumps(case['runs'][0], sort_keys=True)}: {diff}"
    return "match", ""


def main(tier: str, seed: int, only=None) -> int:
    report = Report(ID, LEVEL, tier, seed)
    digests: Dict[str, Dict[str, Tuple[str, dict]]] = {}

    def note(rec):
        pair = rec.get("pair")
        if pair and rec.get("digest"):
            variant = rec["id"].split(":")[3]
            digests.setdefault(pair, {})[variant] = rec["digest"]

    common.drive(report, MOD, generate(tier, only), opts={"want_digest": True}, batch_size=48, on_record=note,
                 bad=("violation", "nocompile", "transpile_crash", "transpile_timeout"))
    # metamorphic clamp oracle: out-of-range sequence vs. the same sequence with clamped arguments
    pairs_checked = 0
    mismatched: List[str] = []
    for pair, d in digests.items():
        if "o" in d and "c" in d:
            pairs_checked += 1
            if d["o"] != d["c"]:
                mismatched.append(pair)
    if mismatched:
        # re-run the mismatching pairs to build a replayable artefact with both scripts
        for pair in mismatched[:40]:
            dev, mode, placement, seq_txt = pair.split(":", 3)
            seq = tuple(int(x) for x in seq_txt.strip("()").split(",") if x.strip())
            orig = build_case(dev, seq, mode, False, placement)
            twin = build_case(dev, seq, mode, True, placement)
            key = pipeline.case_key(ID, orig)
            report.violation(key, f"{pair}: firmware trace with out-of-range arguments differs from the trace with the clamped arguments\n  script:\n    "
                             + "\n    ".join(orig["src"].splitlines()[7:]), {"case": orig, "twin": twin, "outcome": "clamp_metamorphic"})
    report.outcomes["clamp_pairs_equal"] = pairs_checked - len(mismatched)
    report.outcomes["clamp_pairs_differ"] = len(mismatched)
    report.bounds = {"sequences": "all op sequences k<=2 per device plus k=3 over a 5-9 symbol core (quick); k<=3 over the full alphabets and k=4 over a 6-symbol core (thorough)", "alphabets": {d: len(v[2]) for d, v in DEVICES.items()},
                     "argument_modes": "literal and run-time (analog_read) for every numeric argument", "placements": "setup; loop with 2 passes (singles, thorough: all)"}
    ops0 = DEVICES["motor"][2]
    report.add_sample({"device": "motor", "sequence": [ops0[13][0], ops0[14][0]], "script": build_case("motor", (13, 14), "lit", False, "setup")["src"].splitlines()[7:]})
    report.add_sample({"device": "led", "runtime_args": build_case("led", (5, 12), "rt", False, "setup")["src"].splitlines()[7:]})
    return report.finish(
        rule="all operation sequences up to the bound x {literal, run-time} arguments; observation = levels held during every wait + getter values after every operation + final levels; distinct = distinct emitted firmware texts",
        assumptions=evidence.COMMON_ASSUMPTIONS + ["digitalWrite(HIGH/LOW) is identified with PWM duty 255/0", "RGB fade steps with an exact .5 interpolation point are excluded from the clean alphabet (known finding, witnesses in known_findings.json)"],
    )


def replay(path: str) -> int:
    data = json.loads(open(path).read())
    if data.get("outcome") == "clamp_metamorphic":
        recs = pipeline.process_batch((MOD, [dict(data["case"], pair="p"), dict(data["twin"], pair="p")], {"want_digest": True, "judge": "judge"}))
        if recs[0].get("digest") != recs[1].get("digest"):
            print(f"VIOLATION property={ID} replay={path}")
            return 1
        print("replay: traces equal")
        return 0
    return common.replay_program(ID, MOD, path, bad=("violation", "nocompile"))
