#!/bin/bash
# usage: tools/verify_seed.sh <seed dir>   -- confirm a seeded change in a scratch worktree:
#   tests pass with the patch, demo fails with the patch, demo passes without it.
set -u
d="$1"
wt=$(mktemp -d /tmp/wt-verify-XXXXXX); rmdir "$wt"
git -C /repo worktree add -q --detach "$wt" HEAD || exit 9
demo=$(ls "$d"/demo.py "$d"/test_demo.py 2>/dev/null | head -1)
run_demo() { if [[ "$demo" == *test_demo.py ]]; then (cd "$wt" && REDUINO_SRC="$wt/src" REDUINO_ROOT="$wt" /venv/bin/python -m pytest -q -p no:cacheprovider "$demo" >/dev/null 2>&1); else (cd "$wt" && PYTHONPATH="$wt/src" REDUINO_SRC="$wt/src" REDUINO_ROOT="$wt" /venv/bin/python "$demo" >/dev/null 2>&1); fi; }
run_demo; clean=$?
git -C "$wt" apply "$d/patch.diff" || { echo "APPLY-FAILED"; git -C /repo worktree remove --force "$wt"; exit 8; }
(cd "$wt" && /venv/bin/python -m pytest -q -p no:cacheprovider 2>&1 | tail -1)
run_demo; patched=$?
git -C /repo worktree remove --force "$wt"
echo "demo exit: clean=$clean patched=$patched"
[[ $clean -eq 0 && $patched -ne 0 ]] && echo "SEED-CONFIRMED" || echo "SEED-NOT-CONFIRMED"
