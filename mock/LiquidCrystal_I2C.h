#ifndef REDU_MOCK_LIQUIDCRYSTAL_I2C_H
#define REDU_MOCK_LIQUIDCRYSTAL_I2C_H
#include <Arduino.h>
#include <Wire.h>
#include "redu_lcd_model.h"
class LiquidCrystal_I2C : public redu_rt::LcdModel {
 public:
  LiquidCrystal_I2C(int addr, int cols, int rows) : addr_i2c_(addr), icols_(cols), irows_(rows) {}
  void init() { model_begin(icols_, irows_, "init"); }
  void begin() { init(); }
  void backlight() { ensure_id(); redu_rt::ev("lcd %d backlight", id_); }
  void noBacklight() { ensure_id(); redu_rt::ev("lcd %d noBacklight", id_); }
 private:
  int addr_i2c_;
  int icols_;
  int irows_;
};
#endif
