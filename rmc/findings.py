"""known_findings.json handling (DESIGN.md A.5).  The file is never written at run time."""
from __future__ import annotations

import json
from pathlib import Path
from typing import Dict, List, Optional, Tuple

ROOT = Path(__file__).resolve().parent.parent
PATH = ROOT / "known_findings.json"


def load(property_id: str) -> List[dict]:
    if not PATH.exists():
        return []
    data = json.loads(PATH.read_text(encoding="utf-8"))
    return [f for f in data.get("findings", []) if f.get("property") == property_id]


def index_open(findings: List[dict]) -> Dict[str, dict]:
    """case key -> finding, for open findings only (fixed entries suppress nothing)."""
    out: Dict[str, dict] = {}
    for f in findings:
        if f.get("status") != "open":
            continue
        for c in f.get("cases", []):
            out[c["key"]] = f
    return out
