"""Helpers shared by the program-level (transpile + run) checks."""
from __future__ import annotations

import itertools
import json
from typing import Any, Dict, Iterable, Iterator, List, Optional, Sequence

from rmc import evidence, pipeline
from rmc.runner import Report

PROLOGUE = (
    "from Reduino import target\n"
    'target("COM3")\n'
    "from Reduino.Communication import SerialMonitor\n"
    "from Reduino.Core import analog_read, digital_read, digital_write, analog_write, pin_mode, OUTPUT, INPUT, HIGH, LOW\n"
    "from Reduino.Utils import sleep\n"
    "mon = SerialMonitor(9600)\n"
)

BAD_OUTCOMES_DEFAULT = ("violation",)
DEBUG = bool(__import__("os").environ.get("VERIF_DEBUG"))


def indent(lines: Sequence[str], n: int = 1) -> List[str]:
    pad = "    " * n
    return [pad + ln if ln else ln for ln in lines]


def script(setup: Sequence[str], loop: Optional[Sequence[str]] = None, prologue: str = PROLOGUE, defs: Sequence[str] = ()) -> str:
    parts = [prologue.rstrip("\n")]
    parts.extend(defs)
    parts.extend(setup)
    if loop is not None:
        parts.append("while True:")
        parts.extend(indent(list(loop) or ["pass"]))
    return "\n".join(parts) + "\n"


def witness_cases(report: Report) -> List[dict]:
    """Program cases recorded in known_findings.json for this property (open: expected to fail,
    fixed: regression cases that must pass)."""
    out: List[dict] = []
    for f in report.all_findings():
        for c in f.get("cases", []):
            case = c.get("case")
            if isinstance(case, dict) and "src" in case:
                out.append(dict(case, id=f"witness:{f['id']}:{c['key'][:8]}", _witness=f["id"]))
    return out


def drive(report: Report, modname: str, cases: Iterable[dict], *, opts: Optional[dict] = None, batch_size: int = 48,
          bad: Sequence[str] = BAD_OUTCOMES_DEFAULT, judge: str = "judge", sample_every: int = 997,
          include_witnesses: bool = True, state_of=None, on_record=None) -> None:
    """Run program cases through the pipeline and fold the results into ``report``."""
    opts = dict(opts or {})
    opts.setdefault("judge", judge)
    stream: Iterable[dict] = cases
    if include_witnesses:
        stream = itertools.chain(witness_cases(report), cases)
    n = 0
    for rec in pipeline.run_cases(modname, stream, batch_size=batch_size, opts=opts):
        n += 1
        outcome = rec["outcome"]
        report.evaluations += 1
        report.outcomes[outcome] += 1
        report.transitions += 1
        if rec.get("cpp_sha"):
            report.states.add(rec["cpp_sha"])
            report.distinct.add(rec["cpp_sha"])
            if outcome in ("match", "violation"):
                report.traces_validated += 1
        if on_record is not None:
            on_record(rec)
        if DEBUG and outcome not in ("match", "reject"):
            print("DEBUG", rec.get("id"), outcome, (rec.get("detail") or "")[:700])
        if outcome == "harness_error":
            report.harness_errors.append(rec.get("detail", ""))
            continue
        if outcome in bad:
            case = rec.get("case") or {}
            key = pipeline.case_key(report.property_id, case)
            summary = f"{rec.get('id')}: {rec.get('detail', '')}\n  script:\n    " + "\n    ".join(case.get("src", "").splitlines()[6:])
            report.violation(key, summary, {"case": case, "outcome": outcome, "detail": rec.get("detail"), "cpp": rec.get("cpp")})
        elif n % sample_every == 1 and outcome == "match":
            pass
    return None


def replay_program(property_id: str, modname: str, path: str, *, opts: Optional[dict] = None, judge: str = "judge",
                   bad: Sequence[str] = BAD_OUTCOMES_DEFAULT) -> int:
    data = json.loads(open(path, encoding="utf-8").read())
    case = data["case"]
    opts = dict(opts or {})
    opts.setdefault("judge", judge)
    # replay twice: the verdict must be reproducible
    verdicts = []
    for _ in range(2):
        recs = pipeline.process_batch((modname, [dict(case)], opts))
        verdicts.append((recs[0]["outcome"], recs[0].get("detail")))
    if verdicts[0] != verdicts[1]:
        print(f"REPLAY-DIVERGENCE property={property_id}: {verdicts}")
        return 2
    outcome, detail = verdicts[0]
    print(f"replay outcome={outcome} detail={detail}")
    if outcome in bad:
        print(f"VIOLATION property={property_id} replay={path}")
        return 1
    return 0
