"""Hard-isolated evaluation of transpiler inputs (used where an input may hang inside a single C call or
exhaust memory, which an in-process alarm cannot interrupt).

A pool of long-lived child interpreters reads cases (JSON lines) on stdin and answers one JSON line per
case; the parent enforces a per-case wall-clock limit by killing the child and restarting it after the
culprit, which is reported as outcome 'timeout'.
"""
from __future__ import annotations

import json
import os
import select
import subprocess
import sys
import threading
import time
from pathlib import Path
from typing import Dict, Iterable, Iterator, List, Optional

ROOT = Path(__file__).resolve().parent.parent


class Child:
    def __init__(self, worker_module: str, mem_mb: int):
        env = dict(os.environ)
        env["VERIF_SANDBOX_MEM_MB"] = str(mem_mb)
        self.proc = subprocess.Popen([sys.executable, "-m", worker_module], stdin=subprocess.PIPE, stdout=subprocess.PIPE, stderr=subprocess.DEVNULL,
                                     cwd=str(ROOT), env=env, bufsize=0)
        self.buf = b""

    def send(self, obj) -> None:
        self.proc.stdin.write((json.dumps(obj) + "\n").encode("utf-8"))
        self.proc.stdin.flush()

    def recv(self, timeout: float) -> Optional[dict]:
        deadline = time.time() + timeout
        fd = self.proc.stdout.fileno()
        while b"\n" not in self.buf:
            left = deadline - time.time()
            if left <= 0:
                return None
            r, _, _ = select.select([fd], [], [], left)
            if not r:
                return None
            chunk = os.read(fd, 1 << 16)
            if not chunk:
                return {"_dead": True}
            self.buf += chunk
        line, self.buf = self.buf.split(b"\n", 1)
        return json.loads(line.decode("utf-8"))

    def kill(self) -> None:
        try:
            self.proc.kill()
            self.proc.wait(timeout=5)
        except Exception:  # noqa: BLE001
            pass


def _lane(worker_module: str, cases: List[dict], timeout: float, mem_mb: int, out: List[dict]) -> None:
    child = Child(worker_module, mem_mb)
    try:
        for case in cases:
            child.send(case)
            ans = child.recv(timeout)
            if ans is None:
                child.kill()
                out.append({"id": case.get("id"), "outcome": "timeout", "detail": f"no answer within {timeout}s (child killed)", "case": case})
                child = Child(worker_module, mem_mb)
            elif ans.get("_dead"):
                rc = child.proc.poll()
                out.append({"id": case.get("id"), "outcome": "child_died", "detail": f"interpreter exited with {rc}", "case": case})
                child.kill()
                child = Child(worker_module, mem_mb)
            else:
                out.append(ans)
    finally:
        child.kill()


def run(worker_module: str, cases: Iterable[dict], *, lanes: int = 12, timeout: float = 4.0, mem_mb: int = 2048) -> List[dict]:
    cases = list(cases)
    lanes = max(1, min(lanes, len(cases)))
    buckets: List[List[dict]] = [cases[i::lanes] for i in range(lanes)]
    outs: List[List[dict]] = [[] for _ in range(lanes)]
    threads = [threading.Thread(target=_lane, args=(worker_module, buckets[i], timeout, mem_mb, outs[i])) for i in range(lanes)]
    for t in threads:
        t.start()
    for t in threads:
        t.join()
    return [r for o in outs for r in o]
