"""Reduino bounded-exhaustive exploration engine (see /verif/DESIGN.md)."""
