#!/bin/bash
# usage: tools/run_seed.sh <patch.diff> <check id> [check args]  -- apply to /repo, run the check, always undo.
set -u
p="$1"; shift
git -C /repo diff --quiet || { echo "/repo is dirty"; exit 9; }
git -C /repo apply "$p" || { echo APPLY-FAILED; exit 8; }
/verif/check "$@"; code=$?
git -C /repo checkout -- .
echo "seed run exit code: $code"
exit $code
