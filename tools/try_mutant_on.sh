#!/bin/bash
# usage: tools/try_mutant_on.sh <base src parent dir> <patch.diff> <check id> [args]  -- like try_mutant.sh but on top of a given
# scratch copy (a directory that contains src/), e.g. one that already carries a prepared fix.
set -u
base="$1"; shift; patch="$1"; shift; id="$1"; shift
scratch=$(mktemp -d /tmp/redu-mut-XXXXXX)
cp -r "$base/src" "$scratch/src"
( cd "$scratch" && patch -p1 -s < "$patch" ) || { echo "patch failed"; rm -rf "$scratch"; exit 9; }
REDUINO_SRC="$scratch/src" /verif/check "$id" "$@"
code=$?
rm -rf "$scratch"
exit $code
