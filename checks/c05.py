"""C05 — setup()/loop() split: run-once prologue, repeated body, configure-before-use.

Enumerates every subset (size <= 2 quick / 3 thorough) of the ten declarable device kinds x declaration
position (before the main loop / top of the `while True:` body for the hoistable kinds / both = re-bound)
x first-use position (setup / loop) x script with or without a main loop x N in {0..3} passes, and runs
temporal monitors over the firmware trace:
  (a) every pin / peripheral is configured before the first command that touches it, never re-configured
      to a different mode, motors are driven to a safe stop first;
  (b) injected housekeeping (button sample) runs exactly once per pass before any user statement;
  (c) differential agreement with CPython for every N (run-once prologue, per-pass body, persistence);
  (d) `break` cannot terminate the main loop.
"""
from __future__ import annotations

import itertools
import json
from typing import Dict, Iterator, List, Optional, Sequence, Tuple

from rmc import evidence, observe, pipeline
from rmc.runner import Report
from . import common

ID = "C05"
LEVEL = "model_checking"
MOD = "checks.c05"

PRO = (
    "from Reduino import target\n"
    'target("COM3")\n'
    "from Reduino.Actuators import Led, RGBLed, Servo, DCMotor, Buzzer\n"
    "from Reduino.Sensors import Button, Potentiometer, Ultrasonic\n"
    "from Reduino.Displays import LCD\n"
    "from Reduino.Communication import SerialMonitor\n"
    "from Reduino.Utils import sleep\n"
    "mon = SerialMonitor(9600)\n"
)

# kind -> (declaration template, pins {role: pin}, use statements, hoistable, alt pins for a re-bound declaration)
KINDS: Dict[str, dict] = {
    "led": dict(decl="led = Led({p0})", pins=[9], alt=[2], use=["led.on()"], hoist=True, outputs=[0]),
    "rgb": dict(decl="rgb = RGBLed({p0}, {p1}, {p2})", pins=[3, 5, 6], alt=[24, 25, 26], use=["rgb.set_color(1, 2, 3)"], hoist=True, outputs=[0, 1, 2]),
    "servo": dict(decl="sv = Servo({p0})", pins=[10], alt=[27], use=["sv.write(90)"], hoist=True, outputs=[]),
    "motor": dict(decl="m = DCMotor({p0}, {p1}, {p2})", pins=[4, 7, 11], alt=[28, 29, 30], use=["m.set_speed(0.5)"], hoist=True, outputs=[0, 1, 2]),
    "buzzer": dict(decl="bz = Buzzer({p0})", pins=[8], alt=[31], use=["bz.play_tone(440)"], hoist=False, outputs=[]),
    "button": dict(decl="btn = Button({p0})", pins=[12], alt=[32], use=["mon.write(btn.is_pressed())"], hoist=True, outputs=[]),
    "pot": dict(decl='pot = Potentiometer("A{a0}")', pins=[15], alt=[16], use=["mon.write(pot.read())"], hoist=True, outputs=[]),
    "ultra": dict(decl="us = Ultrasonic({p0}, {p1})", pins=[22, 23], alt=[33, 34], use=["mon.write(us.measure_distance())"], hoist=True, outputs=[]),
    "lcd": dict(decl="lcd = LCD(rs=40, en=41, d4=42, d5=43, d6=44, d7=45, backlight_pin={p0})", pins=[46], alt=[47], use=['lcd.line(0, "hi")', "lcd.brightness(100)"], hoist=False, outputs=[0]),
    "lcdanim": dict(decl="disp = LCD(i2c_addr=38, cols=8, rows=2)", pins=[], alt=[], use=['disp.line(1, "k")'], hoist=False, outputs=[], extra_setup=['disp.animate("scroll", 0, "abcdefghijkl", speed_ms=0, loop=True)']),
    "lcdi2c": dict(decl="panel = LCD(i2c_addr=39, cols=16, rows=2)", pins=[], alt=[], use=['panel.line(1, "yo")'], hoist=False, outputs=[]),
}


def _decl(kind: str, alt: bool = False) -> str:
    spec = KINDS[kind]
    pins = spec["alt"] if alt else spec["pins"]
    fmt = {f"p{i}": p for i, p in enumerate(pins)}
    if kind == "pot":
        fmt = {"a0": pins[0] - 14}
    return spec["decl"].format(**fmt)


def build(kinds: Sequence[str], decl_pos: Sequence[str], use_pos: Sequence[str], main_loop: bool, passes: int) -> Optional[dict]:
    """decl_pos[i] in {'setup', 'loop', 'both'}; use_pos[i] in {'setup', 'loop', 'both'}."""
    setup: List[str] = []
    loop_decls: List[str] = []
    loop_body: List[str] = []
    meta: Dict[str, dict] = {}
    for kind, dpos, upos in zip(kinds, decl_pos, use_pos):
        spec = KINDS[kind]
        if dpos in ("loop", "both") and (not spec["hoist"] or not main_loop):
            return None
        if upos in ("loop", "both") and not main_loop:
            return None
        if dpos == "loop" and upos in ("setup", "both"):
            return None  # not yet declared when setup runs (NameError in Python)
        if dpos in ("setup", "both"):
            setup.append(_decl(kind))
            setup.extend(spec.get("extra_setup", []))
        if dpos in ("loop", "both"):
            loop_decls.append(_decl(kind, alt=(dpos == "both")))
        uses = spec["use"]
        if upos in ("setup", "both"):
            setup.extend(uses)
        if upos in ("loop", "both"):
            loop_body.extend(uses)
        meta[kind] = {"decl": dpos, "use": upos}
    setup.append('mon.write("s")')
    src = common.script(setup, (loop_decls + loop_body + ['mon.write("l")', "sleep(3)"]) if main_loop else None, prologue=PRO)
    run = {"passes": passes, "dr": {12: [0, 1, 1, 0], 32: [1, 0, 1, 1]}, "ar": {"A1": [5, 6, 7, 8], "A2": [9, 10, 11]}, "pulse": [583, 1166, 0, 0, 0, 583]}
    runs = [run]
    if "button" in kinds:
        # ... and with the button line at the pressed level while the sketch starts
        runs.append(dict(run, dr={12: [1, 1, 0, 1], 32: [0, 0, 1, 0]}))
    return {"id": f"D:{'+'.join(kinds)}:{','.join(decl_pos)}:{','.join(use_pos)}:{int(main_loop)}:{passes}", "src": src, "runs": runs, "meta": meta, "kinds": list(kinds), "space": "D"}


def gen_devices(tier: str) -> Iterator[dict]:
    kinds_all = list(KINDS)
    max_size = 3 if tier == "thorough" else 2
    passes_list = [0, 1, 3] if tier == "thorough" else [0, 2]
    for size in range(1, max_size + 1):
        for kinds in itertools.combinations(kinds_all, size):
            if size == 3 and tier == "thorough" and (hash(kinds) % 3):
                pass  # keep all triples: the space is small enough
            # re-binding a Servo / Button name to another pin is a known finding (KF-C05-rebind): kept out of the grid
            dpos_choices = [(("setup", "loop", "both") if k not in ("servo", "button") else ("setup", "loop")) if KINDS[k]["hoist"] else ("setup",) for k in kinds]
            for dpos in itertools.product(*dpos_choices):
                for upos in itertools.product(("setup", "loop", "both"), repeat=size):
                    if size >= 2 and tier != "thorough" and upos.count("both") > 1:
                        continue
                    for main_loop in (True, False):
                        for passes in passes_list:
                            if not main_loop and passes not in (0, passes_list[-1]):
                                continue
                            case = build(kinds, dpos, upos, main_loop, passes)
                            if case is not None:
                                yield case


def gen_pin_forms(tier: str) -> Iterator[dict]:
    """The same single-device scripts with the pins given by sketch variables: initialised with a constant, or derived from
    another variable (so that they receive their value at run time, in setup()): configuration must use the pin the
    device really has."""
    import re

    for kind, spec in KINDS.items():
        if not spec["pins"] or kind == "pot":
            continue
        for form in ("const_var", "derived_var", "reassigned_var"):
            for upos in ("setup", "loop", "both"):
                for passes in (0, 2):
                    case = build((kind,), ("setup",), (upos,), True, passes)
                    if case is None:
                        continue
                    decl = _decl(kind)
                    names = [f"pin_{kind}{i}" for i in range(len(spec["pins"]))]
                    new_decl = decl
                    for name, pin in zip(names, spec["pins"]):
                        new_decl = re.sub(rf"(?<![\w=]){pin}(?!\w)", name, new_decl, count=1) if f"={pin}" not in new_decl else new_decl.replace(f"={pin}", f"={name}", 1)
                    if new_decl == decl:
                        continue
                    if form == "const_var":
                        prelude = [f"{name} = {pin}" for name, pin in zip(names, spec["pins"])]
                    elif form == "derived_var":
                        prelude = ["pin_base = 1"] + [f"{name} = pin_base + {pin - 1}" for name, pin in zip(names, spec["pins"])]
                    else:
                        prelude = [f"{name} = 0" for name in names] + [f"{name} = {pin}" for name, pin in zip(names, spec["pins"])]
                    src = case["src"].replace(decl + "\n", "\n".join(prelude + [new_decl]) + "\n", 1)
                    if src == case["src"]:
                        continue
                    yield dict(case, id=f"P:{kind}:{form}:{upos}:{passes}", src=src, space="D")


# -- variable lifetime / exactly-once / break ------------------------------------------------------
V_PRO = common.PROLOGUE


def gen_lifetime(tier: str) -> Iterator[dict]:
    bodies = [
        (["n = 0"], ["n += 1", "mon.write(n)"]),
        (["n = 0", "t = 5"], ["t = t + n", "n = n + 1", "mon.write(t)"]),
        (["s = \"\""], ["s = s + \"x\"", "mon.write(s)"]),
        (["f = 0.5"], ["f = f * 2", "mon.write(f)"]),
        (["n = 0"], ["if n < 2:", "    n += 1", "else:", "    n = 0", "mon.write(n)"]),
        (["n = 0"], ["for i in range(2):", "    n += i + 1", "mon.write(n)"]),
        (["n = 3"], ["k = n * 2", "mon.write(k)", "n += 1"]),          # first assignment of k inside the loop body
        (["n = 3"], ["if n > 3:", "    q = n", "else:", "    q = 0 - n", "mon.write(q)", "n += 1"]),
        (["n = 0", "mon.write(\"once\")"], ["n += 1", "mon.write(n)"]),
        ([], ["c = 1", "c = c + 1", "mon.write(c)"]),                   # loop-local
        (["count = 0", "for i in range(3):", "    count += 1", "total = count + 5", "mon.write(total)"], ["total += 1", "mon.write(total)"]),
        (["lim = 2", "if lim > 1:", "    lim = 7", "twice = lim * 2", "mon.write(twice)"], ["twice = twice + lim", "mon.write(twice)"]),
        (["speed = 100", "speed = 250", "period = speed * 2", "mon.write(period)"], ["mon.write(period + speed)"]),
        (["n = 0"], ["for i in range(4):", "    if i == 1:", "        continue", "    mon.write(i)", "n += 1", "mon.write(n)"]),
        (["n = 0"], ["n += 1", "if n == 2:", "    continue", "mon.write(n)"]),
        (['s = "."'], ["if len(s) > 3:", '    s = "."', "else:", '    s = s + "."', "mon.write(s)", "mon.write(len(s))"]),
        (['s = "ab"', "w = [1]"], ["w.append(len(s))", 's = s + "c"', "mon.write(len(w) + len(s))"]),
        (["n = 0"], ["n += 1", "if n == 1:", "    c = 10", "c += 1", "mon.write(c)"]),
        (["n = 0"], ["n += 1", "if n == 1:", "    for i in range(2):", "        if i == 1:", "            d = 5", "d = d + n", "mon.write(d)"]),
        (["n = 0"], ["n += 1", "try:", "    if n == 2:", "        continue", "except:", "    n = 0", "mon.write(n)"]),
        (["n = 0"], ["n += 1", "try:", "    n = n + 0", "except:", "    continue", "if n == 3:", "    continue", "mon.write(n)"]),
        (["n = 0"], ["k = 0", "while k < 3:", "    k += 1", "    if k == 2:", "        continue", "    mon.write(k)", "n += 1", "mon.write(n)"]),
    ]
    passes_list = [0, 1, 2, 3]
    for i, (setup, loop) in enumerate(bodies):
        for passes in passes_list:
            yield {"id": f"V:{i}:{passes}", "space": "V", "src": common.script(setup, loop, prologue=V_PRO), "runs": [{"passes": passes}], "kinds": [], "meta": {}}
    # `break` placements: directly in the main loop (must be rejected) and inside inner loops (must only end those)
    breaks = [
        (["break"], True),
        (["if n > 1:", "    break"], True),
        (["n += 1", "if n == 2:", "    if n > 0:", "        break"], True),
        (["try:", "    break", "except:", "    n = 0"], True),
        (["try:", "    n += 1", "except:", "    break"], True),
        (["try:", "    if n > 1:", "        break", "except:", "    n = 0"], True),
        (["for i in range(3):", "    if i == 1:", "        break", "    mon.write(i)"], False),
        (["for i in range(3):", "    try:", "        if i == 1:", "            break", "    except:", "        n = 0", "    mon.write(i)"], False),
        (["k = 0", "while k < 5:", "    k += 1", "    if k == 2:", "        break", "mon.write(k)"], False),
        (["for i in range(2):", "    for j in range(3):", "        if j == 1:", "            break", "        mon.write(j)", "    mon.write(i)"], False),
    ]
    for i, (loop, must_reject) in enumerate(breaks):
        for passes in (1, 3):
            yield {"id": f"B:{i}:{passes}", "space": "B", "src": common.script(["n = 0"], loop + ["mon.write(n)"], prologue=V_PRO), "runs": [{"passes": passes}],
                   "must_reject": must_reject, "kinds": [], "meta": {}}



# -- animation start sites ---------------------------------------------------------------------------
# Every subset of start sites (setup line, two helpers called from setup, a line of the loop body, a helper
# called from the loop body) x animation kind per site x one / two displays.  Each site animates its own row
# with a looping animation, so every one of them has per-pass housekeeping of its own.
A_SITES = ["setup", "helperA", "helperB", "loop", "helperC"]
A_TEXT = {"scroll": "abcdefghijklmnopqrstuvwxyz", "blink": "blinker"}


def gen_anim_sites(tier: str) -> Iterator[dict]:
    max_size = 4 if tier == "thorough" else 3
    for size in range(1, max_size + 1):
        for sites in itertools.combinations(A_SITES, size):
            for kinds in itertools.product(("scroll", "blink"), repeat=size):
                for n_lcd in ((1, 2) if size > 1 else (1,)):
                    defs: List[str] = []
                    setup = ["lcd0 = LCD(i2c_addr=39, cols=16, rows=4)"] + (["lcd1 = LCD(i2c_addr=38, cols=16, rows=4)"] if n_lcd == 2 else []) + ["n = 0"]
                    loop = ["n += 1"]
                    plan = []
                    for i, (site, kind) in enumerate(zip(sites, kinds)):
                        lcd = f"lcd{i % n_lcd}"
                        call = f'{lcd}.animate("{kind}", {i}, "{A_TEXT[kind]}{i}", speed_ms=100, loop=True)'
                        plan.append({"lcd": i % n_lcd, "row": i, "site": site, "kind": kind})
                        if site == "setup":
                            setup.append(call)
                        elif site in ("helperA", "helperB"):
                            defs += [f"def start_{site}():", "    " + call]
                            setup.append(f"start_{site}()")
                        elif site == "loop":
                            loop += ["if n == 1:", "    " + call]
                        else:
                            defs += ["def start_helperC():", "    " + call]
                            loop += ["if n == 1:", "    start_helperC()"]
                    loop += ["mon.write(n)", "sleep(120)"]
                    src = common.script(setup, loop, prologue=PRO, defs=[])
                    # helpers are defined after the displays they use (documented style)
                    src = common.script(setup[: 1 + (n_lcd == 2)] + defs + setup[1 + (n_lcd == 2):], loop, prologue=PRO)
                    yield {"id": f"A:{'+'.join(sites)}:{'+'.join(kinds)}:{n_lcd}", "space": "A", "src": src, "runs": [{"passes": 8}], "kinds": [], "meta": {}, "plan": plan}
                    if defs:
                        # the helpers come first: right after the import lines, above the serial monitor and the displays
                        pro_lines = PRO.rstrip("\n").split("\n")
                        imports = [ln for ln in pro_lines if ln.startswith(("from ", "import ", "target("))]
                        others = [ln for ln in pro_lines if ln not in imports]
                        src2 = "\n".join(imports + defs + others + setup + ["while True:"] + common.indent(loop)) + "\n"
                        yield {"id": f"A:{'+'.join(sites)}:{'+'.join(kinds)}:{n_lcd}:helpers-first", "space": "A", "src": src2, "runs": [{"passes": 8}], "kinds": [], "meta": {}, "plan": plan}
                        # ... and with nothing but one-name imports above them (the build directive comes later)
                        single = ["from Reduino.Displays import LCD", "from Reduino.Communication import SerialMonitor", "from Reduino.Utils import sleep"]
                        src3 = "\n".join(single + defs + ["from Reduino import target", 'target("COM3")'] + others + setup + ["while True:"] + common.indent(loop)) + "\n"
                        yield {"id": f"A:{'+'.join(sites)}:{'+'.join(kinds)}:{n_lcd}:helpers-very-first", "space": "A", "src": src3, "runs": [{"passes": 8}], "kinds": [], "meta": {}, "plan": plan}


def anim_site_monitor(case, dr) -> Optional[str]:
    """Every started looping animation keeps advancing (its row shows at least two different frames over the
    passes), and the per-pass housekeeping never runs more often than there are animations."""
    from rmc.device import unhex_latin1

    plan = case["plan"]
    frames: Dict[Tuple[int, int], set] = {}
    ticks: Dict[int, int] = {}
    for ev in dr.events:
        if ev.phase < 0:
            continue
        if ev.kind == "millis":
            ticks[ev.phase] = ticks.get(ev.phase, 0) + 1
        if ev.kind == "lcd_dump":
            rows = unhex_latin1(ev.args[1]).split("|")
            for r, text in enumerate(rows):
                frames.setdefault((int(ev.args[0]), r), set()).add(text)
    for p, n in ticks.items():
        if n > len(plan):
            return f"pass {p}: {n} animation ticks for {len(plan)} animations"
    for a in plan:
        seen = frames.get((a["lcd"], a["row"]), set())
        if len(seen) < 2:
            return f"the {a['kind']} animation started from {a['site']} on display {a['lcd']} row {a['row']} never advances: frames {sorted(seen)}"
    return None


# -- spellings of the main loop ------------------------------------------------------------------------
HEADERS = ["while True:", "while (True):", "while(True):", "while True :", "while True:  # main loop", "while ( True ) :", "while  True:", "while True:\t# tab"]


def gen_spellings(tier: str) -> Iterator[dict]:
    """The split must not depend on how the header is spelled or on comment lines inside the body: every header
    spelling x a comment line at every line index of the body x {column 0, body indentation, deeper}."""
    bodies = [
        (["n = 0", 'mon.write("once")'], ["n += 1", "mon.write(n)", "sleep(7)"]),
        (["n = 0", "led = Led(13)"], ["n += 1", "if n == 2:", "    led.toggle()", "    continue", "mon.write(n)", "led.toggle()"]),
        (["n = 0", "btn = Button(2)", "led = Led(13)"], ["if btn.is_pressed():", "    led.on()", "else:", "    led.off()", "n += 1", "mon.write(n)"]),
        (["n = 3"], ["for i in range(2):", "    n += i", "    mon.write(i)", "mon.write(n)", "sleep(3)"]),
    ]
    for bi, (setup, loop) in enumerate(bodies):
        for hi, header in enumerate(HEADERS):
            cols = (0, 4, 8) if hi in (0, 1) or tier == "thorough" else ()
            variants = [(None, None)] + [(at, col) for at in range(len(loop) + 1) for col in cols]
            for at, col in variants:
                body = list(loop)
                if at is not None:
                    if col == 8 and not (at > 0 and body[at - 1].startswith("    ") or at > 0 and body[at - 1].endswith(":")):
                        continue
                    body.insert(at, "\x00" + " " * col + "# note")
                lines = PRO.rstrip("\n").split("\n") + setup + [header] + [ln[1:] if ln.startswith("\x00") else "    " + ln for ln in body]
                yield {"id": f"Y:{bi}:{hi}:{at}:{col}", "space": "V", "src": "\n".join(lines) + "\n", "runs": [{"passes": 3, "dr": {2: [0, 1, 1, 0, 1]}}], "kinds": [], "meta": {}}

# -- monitors --------------------------------------------------------------------------------------
OUTPUT_CMDS = ("dw", "aw")


def config_monitor(case, dr) -> Optional[str]:
    modes: Dict[int, str] = {}
    servo_attached = set()
    lcd_begun = set()
    serial_begun = False
    motor_pins = {}
    kinds = case.get("kinds", [])
    meta = case.get("meta", {})
    # expected input pins
    want_input: Dict[int, Tuple[str, ...]] = {}
    ultra_pins: List[Tuple[int, int]] = []
    for kind in kinds:
        spec = KINDS[kind]
        variants = []
        if meta[kind]["decl"] in ("setup", "both"):
            variants.append(spec["pins"])
        if meta[kind]["decl"] in ("loop", "both"):
            variants.append(spec["alt"] if meta[kind]["decl"] == "both" else spec["pins"])
        for pins in variants:
            if kind == "button":
                want_input[pins[0]] = ("INPUT", "INPUT_PULLUP")
            elif kind == "pot":
                want_input[pins[0]] = ("INPUT",)
            elif kind == "ultra":
                want_input[pins[1]] = ("INPUT",)
                ultra_pins.append((pins[0], pins[1]))
            elif kind == "motor":
                motor_pins[tuple(pins)] = {"stopped": set()}
    touched_motor: Dict[tuple, bool] = {k: False for k in motor_pins}
    for ev in dr.events:
        k, a = ev.kind, ev.args
        if k == "pinMode":
            pin, mode = int(a[0]), a[1]
            if pin in modes and modes[pin] != mode:
                return f"pin {pin} configured as {modes[pin]} and later as {mode}"
            modes[pin] = mode
        elif k in OUTPUT_CMDS:
            pin = int(a[0])
            if modes.get(pin) != "OUTPUT":
                return f"{'digitalWrite' if k == 'dw' else 'analogWrite'}({pin}, {a[1]}) before pinMode({pin}, OUTPUT) (t={ev.t}, phase {ev.phase})"
            for pins, st in motor_pins.items():
                if pin in pins and not touched_motor[pins]:
                    # the first three commands on a motor's pins must be the safe stop: in1 LOW, in2 LOW, enable 0
                    if int(a[1]) != 0:
                        return f"motor pin {pin} driven to {a[1]} before the safe stop"
                    st["stopped"].add(pin)
                    if len(st["stopped"]) == 3:
                        touched_motor[pins] = True
        elif k == "dr":
            pin = int(a[0])
            if pin in want_input and modes.get(pin) not in want_input[pin]:
                return f"digitalRead({pin}) before the pin was configured as an input"
        elif k == "ar":
            pin = int(a[0])
            if pin in want_input and modes.get(pin) not in want_input[pin]:
                return f"analogRead({pin}) before pinMode({pin}, INPUT)"
        elif k == "pulseIn":
            pin = int(a[0])
            if modes.get(pin) != "INPUT":
                return f"pulseIn({pin}) before pinMode({pin}, INPUT)"
        elif k == "tone" or k == "notone":
            pin = int(a[0])
            if modes.get(pin) != "OUTPUT":
                return f"{k} on pin {pin} before pinMode({pin}, OUTPUT)"
        elif k == "servo_attach":
            servo_attached.add(int(a[0]))
        elif k in ("servo_write", "servo_us"):
            if int(a[0]) not in servo_attached:
                return f"servo {a[0]} commanded before attach()"
        elif k == "lcd":
            lid = int(a[0])
            if a[1] in ("begin", "init"):
                lcd_begun.add(lid)
            elif lid not in lcd_begun:
                return f"lcd {lid} {a[1]} before begin()/init()"
        elif k == "serial_begin":
            serial_begun = True
        elif k == "serial":
            if not serial_begun:
                return "Serial output before Serial.begin()"
        if ev.phase >= 0 and k in ("pinMode", "servo_attach", "serial_begin") :
            return f"{k} {' '.join(a)} executed inside loop() pass {ev.phase} (configuration belongs to setup())"
        if ev.phase >= 0 and k == "lcd" and a[1] in ("begin", "init"):
            return f"lcd {a[1]} executed inside loop() pass {ev.phase}"
    return None


def housekeeping_monitor(case, dr) -> Optional[str]:
    """Button sampling: exactly one digitalRead per declared button per pass, before any user event."""
    kinds = case.get("kinds", [])
    if "button" not in kinds:
        return None
    meta = case["meta"]["button"]
    pins = []
    if meta["decl"] in ("setup",):
        pins = [KINDS["button"]["pins"][0]]
    elif meta["decl"] == "loop":
        pins = [KINDS["button"]["pins"][0]]
    else:
        pins = [KINDS["button"]["alt"][0]]  # re-bound: the loop declaration wins for the name
    by_pass: Dict[int, List] = {}
    for ev in dr.events:
        if ev.phase >= 0:
            by_pass.setdefault(ev.phase, []).append(ev)
    for p, evs in by_pass.items():
        for pin in pins:
            reads = [i for i, ev in enumerate(evs) if ev.kind == "dr" and int(ev.args[0]) == pin]
            if len(reads) != 1:
                return f"pass {p}: button pin {pin} sampled {len(reads)} times (expected exactly once)"
            user = [i for i, ev in enumerate(evs) if ev.kind in ("serial", "delay", "aw", "dw", "tone", "servo_write", "lcd", "ar", "pulseIn")]
            if user and reads[0] > user[0]:
                return f"pass {p}: button pin {pin} sampled after a user statement already ran"
    return None


def tick_monitor(case, dr) -> Optional[str]:
    """LCD animation ticks: exactly one per pass, before any user statement of that pass."""
    if "lcdanim" not in case.get("kinds", []):
        return None
    by_pass: Dict[int, List] = {}
    for ev in dr.events:
        if ev.phase >= 0:
            by_pass.setdefault(ev.phase, []).append(ev)
    for p, evs in by_pass.items():
        ticks = [i for i, ev in enumerate(evs) if ev.kind == "millis"]
        n_us = sum(1 for ev in evs if ev.kind == "pulseIn")
        if "ultra" in case.get("kinds", []):
            continue  # the ultrasonic helper also reads millis()
        if len(ticks) != 1:
            return f"pass {p}: the animation was ticked {len(ticks)} times (expected exactly once)"
        user = [i for i, ev in enumerate(evs) if ev.kind in ("serial", "delay", "aw", "dw", "tone", "servo_write", "ar")]
        if user and ticks[0] > user[0]:
            return f"pass {p}: the animation tick ran after a user statement"
    return None


def judge(case, tr, dev_runs, host_runs):
    if case.get("must_reject"):
        if tr.status == "reject":
            return "reject_expected", ""
        if tr.status == "ok":
            return "violation", "`break` that leaves the main loop was accepted"
        return "transpile_" + tr.status, tr.error or ""
    if tr.status in ("reject", "syntax"):
        if case.get("space") in ("V", "B"):
            return "violation", f"documented-style script rejected: {tr.error}"
        return "reject", tr.error or ""
    if tr.status != "ok":
        return "transpile_" + tr.status, tr.error or ""
    if dev_runs is None:
        return "nocompile", "; ".join(case.get("_compile_errors", []))[:300]
    for dr in dev_runs:
        if not dr.ok:
            return "violation", f"firmware did not run cleanly: {dr.faults[:2]} exit={dr.exit_code}"
        if case.get("space") == "H":
            from . import c15

            err = c15.button_monitor(case, case["runs"][dev_runs.index(dr)], dr)
            if err:
                return "violation", "monitor: " + err
            continue
        if case.get("space") == "A":
            err = anim_site_monitor(case, dr)
            if err:
                return "violation", "monitor: " + err
            continue
        err = config_monitor(case, dr) or housekeeping_monitor(case, dr) or tick_monitor(case, dr)
        if err:
            return "violation", "monitor: " + err
    hr = host_runs[0]
    if hr.error is not None:
        return "skip_host_" + (hr.error_type or "error"), hr.error or ""
    if case.get("space") in ("A", "H"):
        return "match_monitors_only", ""
    kinds = case.get("kinds", [])
    # ultrasonic retry/fallback and LCD cells have their own properties (C15/C17); compare what C05 is about
    host_obs = observe.reduce_host(hr.events)
    dev_obs = observe.reduce_device(dev_runs[0])
    if "ultra" in kinds or "lcdanim" in kinds:
        return "match_monitors_only", ""
    diff = observe.compare(host_obs, dev_obs, check_lcd=True)
    if diff:
        return "violation", f"inputs={json.dumps(case['runs'][0], sort_keys=True)}: {diff}"
    return "match", ""


def generate(tier: str, only=None) -> Iterator[dict]:
    if not only or "D" in only:
        yield from gen_devices(tier)
        yield from gen_pin_forms(tier)
    if not only or "V" in only:
        yield from gen_lifetime(tier)
    if not only or "A" in only:
        yield from gen_anim_sites(tier)
    if not only or "Y" in only:
        yield from gen_spellings(tier)
    if not only or "H" in only:
        # two buttons, a click handler that asks for the other button: every sample of the pass is taken (and visible)
        # before any handler runs (the scripts and the monitor are C15's)
        from . import c15

        for si, sc in enumerate(c15.button_scripts()):
            if "handlers" not in sc:
                continue
            runs = [{"passes": 4, "dr": {7: list(s0), 12: list(s1)}} for s0 in itertools.product((0, 1), repeat=5) for s1 in itertools.product((0, 1), repeat=5)]
            yield {"id": f"H:{si}", "space": "H", "src": sc["src"], "runs": runs, "kinds": [], "meta": {k: sc[k] for k in ("where", "handler", "uses", "pins", "handlers")}}


def main(tier: str, seed: int, only=None) -> int:
    report = Report(ID, LEVEL, tier, seed)
    common.drive(report, MOD, generate(tier, only), batch_size=40, bad=("violation", "nocompile", "transpile_crash", "transpile_timeout"))
    report.bounds = {"devices": "all subsets of size <= 2 (quick) / 3 (thorough) of 10 device kinds x declaration position {setup, loop top, both(re-bound)} x first use {setup, loop, both} x with/without main loop",
                     "passes": "N in {0,2} (quick) / {0,1,3} (thorough); lifetime scripts N in 0..3", "break": "6 placements"}
    sample = build(("led", "button"), ("both", "loop"), ("loop", "loop"), True, 2)
    report.add_sample({"script": sample["src"].splitlines()[8:], "inputs": sample["runs"][0]})
    return report.finish(
        rule="every combination of the stated grid is transpiled, compiled and run; monitors (configure-before-use, single mode per pin, safe stop, one button sample per pass before user code) + differential vs CPython; distinct = distinct firmware texts",
        assumptions=evidence.COMMON_ASSUMPTIONS + ["devices declared at the top of the loop body are used with idempotent commands only (CPython re-creates the host object every pass)"],
    )


def replay(path: str) -> int:
    return common.replay_program(ID, MOD, path, bad=("violation", "nocompile"))
