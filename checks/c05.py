"""C05 — setup()/loop() split: run-once prologue, repeated body, configure-before-use.

Enumerates every subset (size <= 2 quick / 3 thorough) of the ten declarable device kinds x declaration
position (before the main loop / top of the `while True:` body for the hoistable kinds / both = re-bound)
x first-use position (setup / loop) x script with or without a main loop x N in {0..3} passes, and runs
temporal monitors over the firmware trace:
  (a) every pin / peripheral is configured before the first command that touches it, never re-configured
      to a different mode, motors are driven to a safe stop first;
  (b) injected housekeeping (button sample) runs exactly once per pass before any user statement;
  (c) differential agreement with CPython for every N (run-once prologue, per-pass body, persistence);
  (d) `break` cannot terminate the main loop.
"""
from __future__ import annotations

import itertools
import json
from typing import Dict, Iterator, List, Optional, Sequence, Tuple

from rmc import evidence, observe, pipeline
from rmc.runner import Report
from . import common

ID = "C05"
LEVEL = "model_checking"
MOD = "checks.c05"

PRO = (
    "from Reduino import target\n"
    'target("COM3")\n'
    "from Reduino.Actuators import Led, RGBLed, Servo, DCMotor, Buzzer\n"
    "from Reduino.Sensors import Button, Potentiometer, Ultrasonic\n"
    "from Reduino.Displays import LCD\n"
    "from Reduino.Communication import SerialMonitor\n"
    "from Reduino.Utils import sleep\n"
    "mon = SerialMonitor(9600)\n"
)

# kind -> (declaration template, pins {role: pin}, use statements, hoistable, alt pins for a re-bound declaration)
KINDS: Dict[str, dict] = {
    "led": dict(decl="led = Led({p0})", pins=[9], alt=[2], use=["led.on()"], hoist=True, outputs=[0]),
    "rgb": dict(decl="rgb = RGBLed({p0}, {p1}, {p2})", pins=[3, 5, 6], alt=[24, 25, 26], use=["rgb.set_color(1, 2, 3)"], hoist=True, outputs=[0, 1, 2]),
    "servo": dict(decl="sv = Servo({p0})", pins=[10], alt=[27], use=["sv.write(90)"], hoist=True, outputs=[]),
    "motor": dict(decl="m = DCMotor({p0}, {p1}, {p2})", pins=[4, 7, 11], alt=[28, 29, 30], use=["m.set_speed(0.5)"], hoist=True, outputs=[0, 1, 2]),
    "buzzer": dict(decl="bz = Buzzer({p0})", pins=[8], alt=[31], use=["bz.play_tone(440)"], hoist=False, outputs=[]),
    "button": dict(decl="btn = Button({p0})", pins=[12], alt=[32], use=["mon.write(btn.is_pressed())"], hoist=True, outputs=[]),
    "pot": dict(decl='pot = Potentiometer("A{a0}")', pins=[15], alt=[16], use=["mon.write(pot.read())"], hoist=True, outputs=[]),
    "ultra": dict(decl="us = Ultrasonic({p0}, {p1})", pins=[22, 23], alt=[33, 34], use=["mon.write(us.measure_distance())"], hoist=True, outputs=[]),
    "lcd": dict(decl="lcd = LCD(rs=40, en=41, d4=42, d5=43, d6=44, d7=45, backlight_pin={p0})", pins=[46], alt=[47], use=['lcd.line(0, "hi")', "lcd.brightness(100)"], hoist=False, outputs=[0]),
    "lcdanim": dict(decl="disp = LCD(i2c_addr=38, cols=8, rows=2)", pins=[], alt=[], use=['disp.line(1, "k")'], hoist=False, outputs=[], extra_setup=['disp.animate("scroll", 0, "abcdefghijkl", speed_ms=0, loop=True)']),
    "lcdi2c": dict(decl="panel = LCD(i2c_addr=39, cols=16, rows=2)", pins=[], alt=[], use=['panel.line(1, "yo")'], hoist=False, outputs=[]),
}


def _decl(kind: str, alt: bool = False) -> str:
    spec = KINDS[kind]
    pins = spec["alt"] if alt else spec["pins"]
    fmt = {f"p{i}": p for i, p in enumerate(pins)}
    if kind == "pot":
        fmt = {"a0": pins[0] - 14}
    return spec["decl"].format(**fmt)


def build(kinds: Sequence[str], decl_pos: Sequence[str], use_pos: Sequence[str], main_loop: bool, passes: int) -> Optional[dict]:
    """decl_pos[i] in {'setup', 'loop', 'both'}; use_pos[i] in {'setup', 'loop', 'both'}."""
    setup: List[str] = []
    loop_decls: List[str] = []
    loop_body: List[str] = []
    meta: Dict[str, dict] = {}
    for kind, dpos, upos in zip(kinds, decl_pos, use_pos):
        spec = KINDS[kind]
        if dpos in ("loop", "both") and (not spec["hoist"] or not main_loop):
            return None
        if upos in ("loop", "both") and not main_loop:
            return None
        if dpos == "loop" and upos in ("setup", "both"):
            return None  # not yet declared when setup runs (NameError in Python)
        if dpos in ("setup", "both"):
            setup.append(_decl(kind))
            setup.extend(spec.get("extra_setup", []))
        if dpos in ("loop", "both"):
            loop_decls.append(_decl(kind, alt=(dpos == "both")))
        uses = spec["use"]
        if upos in ("setup", "both"):
            setup.extend(uses)
        if upos in ("loop", "both"):
            loop_body.extend(uses)
        meta[kind] = {"decl": dpos, "use": upos}
    setup.append('mon.write("s")')
    src = common.script(setup, (loop_decls + loop_body + ['mon.write("l")', "sleep(3)"]) if main_loop else None, prologue=PRO)
    run = {"passes": passes, "dr": {12: [0, 1, 1, 0], 32: [1, 0, 1, 1]}, "ar": {"A1": [5, 6, 7, 8], "A2": [9, 10, 11]}, "pulse": [583, 1166, 0, 0, 0, 583]}
    return {"id": f"D:{'+'.join(kinds)}:{','.join(decl_pos)}:{','.join(use_pos)}:{int(main_loop)}:{passes}", "src": src, "runs": [run], "meta": meta, "kinds": list(kinds), "space": "D"}


def gen_devices(tier: str) -> Iterator[dict]:
    kinds_all = list(KINDS)
    max_size = 3 if tier == "thorough" else 2
    passes_list = [0, 1, 3] if tier == "thorough" else [0, 2]
    for size in range(1, max_size + 1):
        for kinds in itertools.combinations(kinds_all, size):
            if size == 3 and tier == "thorough" and (hash(kinds) % 3):
                pass  # keep all triples: the space is small enough
            # re-binding a Servo / Button name to another pin is a known finding (KF-C05-rebind): kept out of the grid
            dpos_choices = [(("setup", "loop", "both") if k not in ("servo", "button") else ("setup", "loop")) if KINDS[k]["hoist"] else ("setup",) for k in kinds]
            for dpos in itertools.product(*dpos_choices):
                for upos in itertools.product(("setup", "loop", "both"), repeat=size):
                    if size >= 2 and tier != "thorough" and upos.count("both") > 1:
                        continue
                    for main_loop in (True, False):
                        for passes in passes_list:
                            if not main_loop and passes not in (0, passes_list[-1]):
                                continue
                            case = build(kinds, dpos, upos, main_loop, passes)
                            if case is not None:
                                yield case


# -- variable lifetime / exactly-once / break ------------------------------------------------------
V_PRO = common.PROLOGUE


def gen_lifetime(tier: str) -> Iterator[dict]:
    bodies = [
        (["n = 0"], ["n += 1", "mon.write(n)"]),
        (["n = 0", "t = 5"], ["t = t + n", "n = n + 1", "mon.write(t)"]),
        (["s = \"\""], ["s = s + \"x\"", "mon.write(s)"]),
        (["f = 0.5"], ["f = f * 2", "mon.write(f)"]),
        (["n = 0"], ["if n < 2:", "    n += 1", "else:", "    n = 0", "mon.write(n)"]),
        (["n = 0"], ["for i in range(2):", "    n += i + 1", "mon.write(n)"]),
        (["n = 3"], ["k = n * 2", "mon.write(k)", "n += 1"]),          # first assignment of k inside the loop body
        (["n = 3"], ["if n > 3:", "    q = n", "else:", "    q = 0 - n", "mon.write(q)", "n += 1"]),
        (["n = 0", "mon.write(\"once\")"], ["n += 1", "mon.write(n)"]),
        ([], ["c = 1", "c = c + 1", "mon.write(c)"]),                   # loop-local
        (["count = 0", "for i in range(3):", "    count += 1", "total = count + 5", "mon.write(total)"], ["total += 1", "mon.write(total)"]),
        (["lim = 2", "if lim > 1:", "    lim = 7", "twice = lim * 2", "mon.write(twice)"], ["twice = twice + lim", "mon.write(twice)"]),
        (["speed = 100", "speed = 250", "period = speed * 2", "mon.write(period)"], ["mon.write(period + speed)"]),
        (["n = 0"], ["for i in range(4):", "    if i == 1:", "        continue", "    mon.write(i)", "n += 1", "mon.write(n)"]),
        (["n = 0"], ["n += 1", "if n == 2:", "    continue", "mon.write(n)"]),
        (["n = 0"], ["k = 0", "while k < 3:", "    k += 1", "    if k == 2:", "        continue", "    mon.write(k)", "n += 1", "mon.write(n)"]),
    ]
    passes_list = [0, 1, 2, 3]
    for i, (setup, loop) in enumerate(bodies):
        for passes in passes_list:
            yield {"id": f"V:{i}:{passes}", "space": "V", "src": common.script(setup, loop, prologue=V_PRO), "runs": [{"passes": passes}], "kinds": [], "meta": {}}
    # `break` placements: directly in the main loop (must be rejected) and inside inner loops (must only end those)
    breaks = [
        (["break"], True),
        (["if n > 1:", "    break"], True),
        (["n += 1", "if n == 2:", "    if n > 0:", "        break"], True),
        (["for i in range(3):", "    if i == 1:", "        break", "    mon.write(i)"], False),
        (["k = 0", "while k < 5:", "    k += 1", "    if k == 2:", "        break", "mon.write(k)"], False),
        (["for i in range(2):", "    for j in range(3):", "        if j == 1:", "            break", "        mon.write(j)", "    mon.write(i)"], False),
    ]
    for i, (loop, must_reject) in enumerate(breaks):
        for passes in (1, 3):
            yield {"id": f"B:{i}:{passes}", "space": "B", "src": common.script(["n = 0"], loop + ["mon.write(n)"], prologue=V_PRO), "runs": [{"passes": passes}],
                   "must_reject": must_reject, "kinds": [], "meta": {}}


# -- monitors --------------------------------------------------------------------------------------
OUTPUT_CMDS = ("dw", "aw")


def config_monitor(case, dr) -> Optional[str]:
    modes: Dict[int, str] = {}
    servo_attached = set()
    lcd_begun = set()
    serial_begun = False
    motor_pins = {}
    kinds = case.get("kinds", [])
    meta = case.get("meta", {})
    # expected input pins
    want_input: Dict[int, Tuple[str, ...]] = {}
    ultra_pins: List[Tuple[int, int]] = []
    for kind in kinds:
        spec = KINDS[kind]
        variants = []
        if meta[kind]["decl"] in ("setup", "both"):
            variants.append(spec["pins"])
        if meta[kind]["decl"] in ("loop", "both"):
            variants.append(spec["alt"] if meta[kind]["decl"] == "both" else spec["pins"])
        for pins in variants:
            if kind == "button":
                want_input[pins[0]] = ("INPUT", "INPUT_PULLUP")
            elif kind == "pot":
                want_input[pins[0]] = ("INPUT",)
            elif kind == "ultra":
                want_input[pins[1]] = ("INPUT",)
                ultra_pins.append((pins[0], pins[1]))
            elif kind == "motor":
                motor_pins[tuple(pins)] = {"stopped": set()}
    touched_motor: Dict[tuple, bool] = {k: False for k in motor_pins}
    for ev in dr.events:
        k, a = ev.kind, ev.args
        if k == "pinMode":
            pin, mode = int(a[0]), a[1]
            if pin in modes and modes[pin] != mode:
                return f"pin {pin} configured as {modes[pin]} and later as {mode}"
            modes[pin] = mode
        elif k in OUTPUT_CMDS:
            pin = int(a[0])
            if modes.get(pin) != "OUTPUT":
                return f"{'digitalWrite' if k == 'dw' else 'analogWrite'}({pin}, {a[1]}) before pinMode({pin}, OUTPUT) (t={ev.t}, phase {ev.phase})"
            for pins, st in motor_pins.items():
                if pin in pins and not touched_motor[pins]:
                    # the first three commands on a motor's pins must be the safe stop: in1 LOW, in2 LOW, enable 0
                    if int(a[1]) != 0:
                        return f"motor pin {pin} driven to {a[1]} before the safe stop"
                    st["stopped"].add(pin)
                    if len(st["stopped"]) == 3:
                        touched_motor[pins] = True
        elif k == "dr":
            pin = int(a[0])
            if pin in want_input and modes.get(pin) not in want_input[pin]:
                return f"digitalRead({pin}) before the pin was configured as an input"
        elif k == "ar":
            pin = int(a[0])
            if pin in want_input and modes.get(pin) not in want_input[pin]:
                return f"analogRead({pin}) before pinMode({pin}, INPUT)"
        elif k == "pulseIn":
            pin = int(a[0])
            if modes.get(pin) != "INPUT":
                return f"pulseIn({pin}) before pinMode({pin}, INPUT)"
        elif k == "tone" or k == "notone":
            pin = int(a[0])
            if modes.get(pin) != "OUTPUT":
                return f"{k} on pin {pin} before pinMode({pin}, OUTPUT)"
        elif k == "servo_attach":
            servo_attached.add(int(a[0]))
        elif k in ("servo_write", "servo_us"):
            if int(a[0]) not in servo_attached:
                return f"servo {a[0]} commanded before attach()"
        elif k == "lcd":
            lid = int(a[0])
            if a[1] in ("begin", "init"):
                lcd_begun.add(lid)
            elif lid not in lcd_begun:
                return f"lcd {lid} {a[1]} before begin()/init()"
        elif k == "serial_begin":
            serial_begun = True
        elif k == "serial":
            if not serial_begun:
                return "Serial output before Serial.begin()"
        if ev.phase >= 0 and k in ("pinMode", "servo_attach", "serial_begin") :
            return f"{k} {' '.join(a)} executed inside loop() pass {ev.phase} (configuration belongs to setup())"
        if ev.phase >= 0 and k == "lcd" and a[1] in ("begin", "init"):
            return f"lcd {a[1]} executed inside loop() pass {ev.phase}"
    return None


def housekeeping_monitor(case, dr) -> Optional[str]:
    """Button sampling: exactly one digitalRead per declared button per pass, before any user event."""
    kinds = case.get("kinds", [])
    if "button" not in kinds:
        return None
    meta = case["meta"]["button"]
    pins = []
    if meta["decl"] in ("setup",):
        pins = [KINDS["button"]["pins"][0]]
    elif meta["decl"] == "loop":
        pins = [KINDS["button"]["pins"][0]]
    else:
        pins = [KINDS["button"]["alt"][0]]  # re-bound: the loop declaration wins for the name
    by_pass: Dict[int, List] = {}
    for ev in dr.events:
        if ev.phase >= 0:
            by_pass.setdefault(ev.phase, []).append(ev)
    for p, evs in by_pass.items():
        for pin in pins:
            reads = [i for i, ev in enumerate(evs) if ev.kind == "dr" and int(ev.args[0]) == pin]
            if len(reads) != 1:
                return f"pass {p}: button pin {pin} sampled {len(reads)} times (expected exactly once)"
            user = [i for i, ev in enumerate(evs) if ev.kind in ("serial", "delay", "aw", "dw", "tone", "servo_write", "lcd", "ar", "pulseIn")]
            if user and reads[0] > user[0]:
                return f"pass {p}: button pin {pin} sampled after a user statement already ran"
    return None


def tick_monitor(case, dr) -> Optional[str]:
    """LCD animation ticks: exactly one per pass, before any user statement of that pass."""
    if "lcdanim" not in case.get("kinds", []):
        return None
    by_pass: Dict[int, List] = {}
    for ev in dr.events:
        if ev.phase >= 0:
            by_pass.setdefault(ev.phase, []).append(ev)
    for p, evs in by_pass.items():
        ticks = [i for i, ev in enumerate(evs) if ev.kind == "millis"]
        n_us = sum(1 for ev in evs if ev.kind == "pulseIn")
        if "ultra" in case.get("kinds", []):
            continue  # the ultrasonic helper also reads millis()
        if len(ticks) != 1:
            return f"pass {p}: the animation was ticked {len(ticks)} times (expected exactly once)"
        user = [i for i, ev in enumerate(evs) if ev.kind in ("serial", "delay", "aw", "dw", "tone", "servo_write", "ar")]
        if user and ticks[0] > user[0]:
            return f"pass {p}: the animation tick ran after a user statement"
    return None


def judge(case, tr, dev_runs, host_runs):
    if case.get("must_reject"):
        if tr.status == "reject":
            return "reject_expected", ""
        if tr.status == "ok":
            return "violation", "`break` that leaves the main loop was accepted"
        return "transpile_" + tr.status, tr.error or ""
    if tr.status in ("reject", "syntax"):
        if case.get("space") in ("V", "B"):
            return "violation", f"documented-style script rejected: {tr.error}"
        return "reject", tr.error or ""
    if tr.status != "ok":
        return "transpile_" + tr.status, tr.error or ""
    if dev_runs is None:
        return "nocompile", "; ".join(case.get("_compile_errors", []))[:300]
    for dr in dev_runs:
        if not dr.ok:
            return "violation", f"firmware did not run cleanly: {dr.faults[:2]} exit={dr.exit_code}"
        err = config_monitor(case, dr) or housekeeping_monitor(case, dr) or tick_monitor(case, dr)
        if err:
            return "violation", "monitor: " + err
    hr = host_runs[0]
    if hr.error is not None:
        return "skip_host_" + (hr.error_type or "error"), hr.error or ""
    kinds = case.get("kinds", [])
    # ultrasonic retry/fallback and LCD cells have their own properties (C15/C17); compare what C05 is about
    host_obs = observe.reduce_host(hr.events)
    dev_obs = observe.reduce_device(dev_runs[0])
    if "ultra" in kinds or "lcdanim" in kinds:
        return "match_monitors_only", ""
    diff = observe.compare(host_obs, dev_obs, check_lcd=True)
    if diff:
        return "violation", f"inputs={json.dumps(case['runs'][0], sort_keys=True)}: {diff}"
    return "match", ""


def generate(tier: str, only=None) -> Iterator[dict]:
    if not only or "D" in only:
        yield from gen_devices(tier)
    if not only or "V" in only:
        yield from gen_lifetime(tier)


def main(tier: str, seed: int, only=None) -> int:
    report = Report(ID, LEVEL, tier, seed)
    common.drive(report, MOD, generate(tier, only), batch_size=40, bad=("violation", "nocompile", "transpile_crash", "transpile_timeout"))
    report.bounds = {"devices": "all subsets of size <= 2 (quick) / 3 (thorough) of 10 device kinds x declaration position {setup, loop top, both(re-bound)} x first use {setup, loop, both} x with/without main loop",
                     "passes": "N in {0,2} (quick) / {0,1,3} (thorough); lifetime scripts N in 0..3", "break": "6 placements"}
    sample = build(("led", "button"), ("both", "loop"), ("loop", "loop"), True, 2)
    report.add_sample({"script": sample["src"].splitlines()[8:], "inputs": sample["runs"][0]})
    return report.finish(
        rule="every combination of the stated grid is transpiled, compiled and run; monitors (configure-before-use, single mode per pin, safe stop, one button sample per pass before user code) + differential vs CPython; distinct = distinct firmware texts",
        assumptions=evidence.COMMON_ASSUMPTIONS + ["devices declared at the top of the loop body are used with idempotent commands only (CPython re-creates the host object every pass)"],
    )


def replay(path: str) -> int:
    return common.replay_program(ID, MOD, path, bad=("violation", "nocompile"))
