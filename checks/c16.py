"""C16 — buzzer: every sound is bounded, silent when it should be, follows the score.

All call sequences k <= 2 (quick) / 3 over a core (thorough) over play_tone / stop / beep / sweep / melody
with boundary arguments (zero, negative, fractional frequencies; zero durations; counts/steps <= 0;
tempos <= 0; all seven melodies), literal and run-time, getters printed after every call.  A protocol
monitor written from the property text runs over the tone/noTone/delay events of every call.
"""
from __future__ import annotations

import itertools
import json
import math
from typing import Dict, Iterator, List, Optional, Sequence, Tuple

from rmc import evidence, observe
from rmc.device import unhex
from rmc.runner import Report
from . import common

ID = "C16"
LEVEL = "model_checking"
MOD = "checks.c16"
PIN = 8
PRO = common.PROLOGUE + "from Reduino.Actuators import Buzzer\n"

# golden copy of the score (tempo in beats/min, (frequency, beats)); kept here so that an edit of the
# emitter's table is noticed
MELODIES = {
    "success": (240.0, [(523.25, 0.5), (659.25, 0.5), (783.99, 1.0)]),
    "error": (200.0, [(329.63, 0.5), (261.63, 1.5)]),
    "startup": (200.0, [(261.63, 0.5), (329.63, 0.5), (392.0, 0.5), (523.25, 1.0)]),
    "notify": (240.0, [(783.99, 0.25), (0.0, 0.25), (783.99, 0.5)]),
    "alarm": (200.0, [(523.25, 0.5), (392.0, 0.5)] * 4),
    "scale_c": (200.0, [(261.63, 0.5), (293.66, 0.5), (329.63, 0.5), (349.23, 0.5), (392.0, 0.5), (440.0, 0.5), (493.88, 0.5), (523.25, 1.0)]),
    "siren": (180.0, [(659.25, 0.75), (523.25, 0.75)] * 3),
}


def _op(name, *args, **kwargs):
    return (name, list(args), dict(kwargs))


def ops(tier: str) -> List[tuple]:
    out = [_op("stop")]
    for f in (-5, 0, 0.4, 440, 1000.5):
        out.append(_op("play_tone", f))
        for d in (0, 1, 50, -20):
            out.append(_op("play_tone", f, d))
    for f in (None, -5, 0, 440):
        for on, off, times in ((100, 100, 1), (0, 0, 2), (7, 3, 3), (5, 0, 2), (10, 10, 0), (10, 10, -1), (40, 0, 3), (-5, 4, 2), (6, -3, 2), (-2, -2, 3)):
            kw = {"on_ms": on, "off_ms": off, "times": times}
            out.append(_op("beep", *([] if f is None else [f]), **kw))
    out.append(_op("beep"))
    for times in (255, 256, 257, 300, 513):
        out.append(_op("beep", 1000, on_ms=1, off_ms=0, times=times))
    for s, e in ((200, 800), (800, 200), (500, 500), (0, 300), (-10, 50), (100.5, 101.5), (400, 0), (300, -20)):
        for d, steps in ((100, 10), (0, 5), (20, 12), (100, 8), (50, 1), (30, 0), (30, -1), (255, 10), (4, 10), (2.5, 7), (-30, 5)):
            if (s, e) in ((500, 500), (-10, 50), (100.5, 101.5), (300, -20)) and steps not in (10, 1, 0):
                continue
            out.append(_op("sweep", s, e, duration_ms=d, steps=steps))
    for name in MELODIES:
        out.append(_op("melody", name))
        # names are case-insensitive: every spelling plays the same tune
        for spelled in (name.capitalize(), name.upper(), name.title()):
            if spelled != name:
                out.append(_op("melody", spelled))
    for tempo in (-1, 0, 60, 240, 97, 37.5, 112.5, 0.5, 225 / 2):
        out.append(_op("melody", "notify", tempo=tempo))
        out.append(_op("melody", "error", tempo=tempo))
    return out


def render(op, mode: str, feed: List[int], pre: List[str], recv: str = "bz") -> str:
    name, args, kwargs = op

    def val(v):
        if isinstance(v, dict):
            return v["self"].replace("{n}", recv)  # an expression over the buzzer's own getters, evaluated before the call
        if isinstance(v, str):
            return json.dumps(v)
        if mode == "lit":
            return repr(v)
        var = f"v{len(feed)}"
        if isinstance(v, float) or v < 0:
            feed.append(int(round(v * 100)) + 100000)
            pre.append(f'{var} = (analog_read("A0") - 100000) / 100')
        else:
            feed.append(int(v))
            pre.append(f'{var} = analog_read("A0")')
        return var

    parts = [val(a) for a in args] + [f"{k}={val(v)}" for k, v in kwargs.items()]
    return f"{recv}.{name}({', '.join(parts)})"


GETTERS = ["mon.write(bz.get_state())", "mon.write(bz.get_frequency())", "mon.write(bz.get_last_frequency())"]
PINS = {"bz": 8, "b2": 5, "b3": 8, "b4": 5}
DEFAULT_FREQ = {"bz": 440.0, "b2": 880.0, "b3": 440.0, "b4": 440.0}


def build_two(seq: Sequence[int], recvs: Sequence[str], all_ops) -> dict:
    """Two buzzers in one sketch: calls alternate between them."""
    lines: List[str] = []
    for k, (idx, recv) in enumerate(zip(seq, recvs)):
        call = render(all_ops[idx], "lit", [], [], recv)
        lines += [f'mon.write("call {k}")', call] + [g.replace("bz.", recv + ".") for g in GETTERS]
    src = common.script(["bz = Buzzer(8)", "b2 = Buzzer(5, default_frequency=880)"] + lines, prologue=PRO)
    return {"id": f"two:{tuple(recvs)}:{tuple(seq)}", "src": src, "runs": [{"passes": 0}], "ops": [all_ops[i] for i in seq], "recvs": list(recvs), "placement": "setup"}


def build_rebind(seq: Sequence[int], all_ops, same_pin: bool) -> dict:
    """One name bound to a Buzzer twice: calls before the second declaration drive the first pin, calls after it
    the second (a new object: fresh state, its own default frequency)."""
    lines: List[str] = ["bz = Buzzer(8)"]
    recvs = []
    for k, idx in enumerate(seq):
        if k == 1:
            lines.append("bz = Buzzer(8)" if same_pin else "bz = Buzzer(5)")
        recvs.append("bz" if k == 0 else ("b3" if same_pin else "b4"))
        lines += [f'mon.write("call {k}")', render(all_ops[idx], "lit", [], [], "bz")] + GETTERS
    return {"id": f"rebind:{same_pin}:{tuple(seq)}", "src": common.script(lines, prologue=PRO), "runs": [{"passes": 0}], "ops": [all_ops[i] for i in seq], "recvs": recvs, "placement": "setup"}


def build_order(op, placement: str) -> dict:
    """Every numeric argument is `nxt()`, a helper that returns 100, 200, 300, ... : Python evaluates the arguments
    left to right in source order, so the k-th argument as written receives k * 100."""
    name, args, kwargs = op
    counter = [0]

    def nxt():
        counter[0] += 100
        return counter[0]

    new_args = [nxt() if isinstance(a, (int, float)) and not isinstance(a, bool) else a for a in args]
    new_kwargs = {k: (nxt() if isinstance(v, (int, float)) and not isinstance(v, bool) and k not in ("times", "steps") else v) for k, v in kwargs.items()}
    parts = ["nxt()" if isinstance(a, (int, float)) and not isinstance(a, bool) else json.dumps(a) for a in args]
    parts += [f"{k}=" + ("nxt()" if isinstance(v, (int, float)) and not isinstance(v, bool) and k not in ("times", "steps") else (json.dumps(v) if isinstance(v, str) else repr(v))) for k, v in kwargs.items()]
    defs = ["cur = 0", "def nxt():", "    global cur", "    cur = cur + 100", "    return cur"]
    lines = ['mon.write("call 0")', f"bz.{name}({', '.join(parts)})"] + GETTERS
    expected = _canonical((name, new_args, new_kwargs))
    if placement == "setup":
        src = common.script(defs + ["bz = Buzzer(8)"] + lines, prologue=PRO)
        return {"id": f"order:{placement}:{name}:{len(args)}:{list(kwargs)}", "src": src, "runs": [{"passes": 0}], "ops": [expected], "placement": "setup"}
    src = common.script(defs + ["bz = Buzzer(8)"], lines, prologue=PRO)
    second = _shift(expected, counter[0])
    return {"id": f"order:{placement}:{name}:{len(args)}:{list(kwargs)}", "src": src, "runs": [{"passes": 2}], "ops": [expected], "ops_by_pass": [[expected], [second]], "placement": "loop"}


def _shift(op, by):
    name, args, kwargs = op
    sh = lambda x, k=None: x + by if isinstance(x, (int, float)) and not isinstance(x, bool) and k not in ("times", "steps") and x % 100 == 0 and x > 0 else x
    return (name, [sh(a) for a in args], {k: sh(v, k) for k, v in kwargs.items()})


# every way of writing the numeric arguments: the first j positionally (signature order), the others as keywords in
# every order; Python evaluates them in the order written
_ORDER_SIGS = [("play_tone", ["frequency", "duration_ms"], 2, {}), ("beep", ["frequency", "on_ms", "off_ms"], 1, {"times": 2}),
               ("sweep", ["start_hz", "end_hz", "duration_ms"], 2, {"steps": 3}), ("melody", ["tempo"], 0, {})]


def _order_ops():
    out = []
    for name, params, max_pos, consts in _ORDER_SIGS:
        lead = ["error"] if name == "melody" else []
        for j in range(0, max_pos + 1):
            rest = params[j:]
            for perm in itertools.permutations(rest):
                for const_first in ((False, True) if consts and perm else (False,)):
                    kwargs = dict(consts) if const_first else {}
                    kwargs.update({k: 1 for k in perm})
                    kwargs.update(consts)
                    out.append((name, lead + [1] * j, kwargs))
    out.append(("melody", ["notify"], {"tempo": 1}))
    return out


ORDER_OPS = _order_ops()
ORDER_POSITIONAL = {"play_tone": ["frequency", "duration_ms"], "beep": ["frequency"], "sweep": ["start_hz", "end_hz"], "melody": ["name"]}


def _canonical(op):
    """the call as the protocol model reads it: leading parameters positional"""
    name, args, kwargs = op
    args, kwargs = list(args), dict(kwargs)
    for pname in ORDER_POSITIONAL[name][len(args):]:
        if pname not in kwargs:
            break
        args.append(kwargs.pop(pname))
    return (name, args, kwargs)


def build(seq: Sequence[int], all_ops, mode: str, placement: str) -> Optional[dict]:
    feed: List[int] = []
    lines: List[str] = []
    for k, idx in enumerate(seq):
        pre: List[str] = []
        call = render(all_ops[idx], mode, feed, pre)
        lines += pre + [f'mon.write("call {k}")', call] + GETTERS
    if mode == "rt" and not feed:
        return None
    ops_by_pass = None
    if placement == "setup":
        src = common.script(["bz = Buzzer(8)"] + lines, prologue=PRO)
        run = {"passes": 0}
    else:
        src = common.script(["bz = Buzzer(8)"], lines, prologue=PRO)
        run = {"passes": 2}
        if mode == "rt":
            # the second pass executes the same call sites with DIFFERENT run-time values
            second = [_vary(all_ops[i]) for i in seq]
            feed2: List[int] = []
            for op2 in second:
                render(op2, mode, feed2, [])
            ops_by_pass = [[all_ops[i] for i in seq], second]
            feed = feed + feed2
        else:
            feed = feed * 2
    if feed:
        run["ar"] = {"A0": feed}
    case = {"id": f"{mode}:{placement}:{seq}", "src": src, "runs": [run], "ops": [all_ops[i] for i in seq], "placement": placement}
    if ops_by_pass:
        case["ops_by_pass"] = ops_by_pass
    return case


def _vary(op):
    """The same call with other (valid, same sign class) numeric values: what the second loop() pass feeds."""
    name, args, kwargs = op
    def v(x, key=None):
        if isinstance(x, str) or x is None or x <= 0:
            return x
        if key == "tempo":
            return x * 2
        if key in ("times", "steps"):
            return x
        return x + 7
    return (name, [v(a) for a in args], {k: v(val, k) for k, val in kwargs.items()})


def _resolve_self(op, st):
    """Python evaluates the arguments before the call: getter expressions see the state the buzzer had BEFORE it."""
    name, args, kwargs = op

    def value(v):
        if isinstance(v, dict):
            text = v["self"].replace("{n}.get_state()", repr(st["cur"] > 0)).replace("{n}.get_frequency()", repr(float(st["cur"]))).replace("{n}.get_last_frequency()", repr(float(st["last"])))
            return eval(text, {"__builtins__": {}}, {})  # noqa: S307 - our own arithmetic over three numbers
        return v

    return (name, [value(a) for a in args], {k: value(v) for k, v in kwargs.items()})


SELF_FIRST = [("play_tone", [120], {}), ("play_tone", [700, 10], {}), ("stop", [], {}), ("beep", [600], {"on_ms": 5, "off_ms": 0, "times": 1}), ("play_tone", [300.5], {})]
SELF_OPS = [
    ("play_tone", [660], {"duration_ms": {"self": "200 if {n}.get_last_frequency() > 500 else 50"}}),
    ("play_tone", [880, {"self": "400 if {n}.get_state() else 30"}], {}),
    ("play_tone", [700, {"self": "{n}.get_frequency() + 5"}], {}),
    ("play_tone", [{"self": "{n}.get_last_frequency() + 100"}], {}),
    ("play_tone", [{"self": "{n}.get_last_frequency() * 2"}, {"self": "{n}.get_last_frequency() / 10"}], {}),
    ("beep", [{"self": "{n}.get_last_frequency() + 100"}], {"on_ms": 5, "off_ms": 0, "times": 2}),
    ("beep", [500], {"on_ms": {"self": "10 if {n}.get_state() else 3"}, "off_ms": 0, "times": 2}),
    ("beep", [500], {"on_ms": 4, "off_ms": 2, "times": {"self": "3 if {n}.get_last_frequency() > 500 else 1"}}),
    ("sweep", [{"self": "{n}.get_last_frequency()"}, 300], {"duration_ms": 20, "steps": 2}),
    ("sweep", [200, 300], {"duration_ms": {"self": "40 if {n}.get_state() else 20"}, "steps": 2}),
    ("melody", ["notify"], {"tempo": {"self": "240 if {n}.get_last_frequency() > 500 else 120"}}),
]


def gen_self() -> Iterator[dict]:
    for fi, first in enumerate(SELF_FIRST):
        for si, op in enumerate(SELF_OPS):
            for placement in ("setup", "loop"):
                lines = []
                for k, o in enumerate((first, op)):
                    lines += [f'mon.write("call {k}")', render(o, "lit", [], [])] + GETTERS
                if placement == "setup":
                    src = common.script(["bz = Buzzer(8)"] + lines, prologue=PRO)
                    yield {"id": f"self:{fi}:{si}:setup", "src": src, "runs": [{"passes": 0}], "ops": [first, op], "placement": "setup"}
                else:
                    src = common.script(["bz = Buzzer(8)"], lines, prologue=PRO)
                    yield {"id": f"self:{fi}:{si}:loop", "src": src, "runs": [{"passes": 2}], "ops": [first, op], "placement": "loop"}


def generate(tier: str, only=None) -> Iterator[dict]:
    yield from gen_self()
    all_ops = ops(tier)
    n = len(all_ops)
    core = [i for i, o in enumerate(all_ops) if (o[0] == "stop") or (o[0] == "play_tone" and o[1] in ([440], [0], [440, 50], [-5, 1])) or
            (o[0] == "beep" and (o[1], o[2].get("times")) in (([], 3), ([0], 2), ([440], 3))) or (o[0] == "sweep" and (o[1], o[2]["steps"]) in (([200, 800], 10), ([800, 200], 12))) or
            (o[0] == "melody" and o[1] == ["notify"] and not o[2])]
    seqs: List[tuple] = [(i,) for i in range(n)]
    seqs += list(itertools.product(core, range(n)))
    seqs += list(itertools.product(range(n), core))
    if tier == "thorough":
        seqs += list(itertools.product(range(n), repeat=2))
        seqs += list(itertools.product(core, repeat=3))
    for op in ORDER_OPS:
        for placement in ("setup", "loop"):
            yield build_order(op, placement)
    small = core[:8]
    for seq in itertools.product(small, repeat=3):
        yield build_two(seq, ("bz", "b2", "bz"), all_ops)
    for seq in itertools.product(small, repeat=2):
        yield build_two(seq, ("b2", "bz"), all_ops)
    for seq in itertools.chain(itertools.product(small, repeat=2), itertools.product(small[:5], repeat=3)):
        yield build_rebind(seq, all_ops, False)
    seen = set()
    for seq in seqs:
        if seq in seen:
            continue
        seen.add(seq)
        for mode in ("lit", "rt"):
            if mode == "rt" and len(seq) > 1 and tier != "thorough":
                continue
            for placement in (("setup", "loop") if len(seq) == 1 else ("setup",)):
                case = build(seq, all_ops, mode, placement)
                if case is not None:
                    yield case


# -- protocol monitor ---------------------------------------------------------------------------
def _round_tone(f: float) -> int:
    return int(f + 0.5)


def check_call(op, events: List[tuple], getters: List[str], st: dict) -> Optional[str]:
    """events: list of ('tone', f) / ('notone',) / ('delay', ms) for this call; st: automaton state
    {'sounding': freq or None, 'last': freq} updated in place."""
    name, args, kwargs = op
    tones = [e for e in events if e[0] == "tone"]
    total_delay = sum(e[1] for e in events if e[0] == "delay")
    # what is sounding at the end, according to the events
    sounding = st["sounding_pin"]
    for e in events:
        if e[0] == "tone":
            sounding = e[1]
        elif e[0] == "notone":
            sounding = None
    st["sounding_pin"] = sounding

    def silent_end() -> Optional[str]:
        if sounding is not None:
            return f"{name}{tuple(args)}{kwargs} returned with the pin still sounding {sounding} Hz"
        if getters[0] not in ("0", "false"):
            return f"{name}: get_state() is {getters[0]!r} after a call that has a duration"
        return None

    requested_small_positive = False
    err = None
    if name == "stop":
        if sounding is not None:
            return "stop() left the pin sounding"
        st["cur"] = 0.0
    elif name == "play_tone":
        f = float(args[0])
        dur = args[1] if len(args) > 1 else kwargs.get("duration_ms")
        requested_small_positive = 0 < f < 0.5
        if f <= 0:
            if tones:
                return f"play_tone({f}) started a tone ({tones})"
            st["cur"] = 0.0
        else:
            if not tones or tones[0][1] != _round_tone(f):
                return f"play_tone({f}) produced tones {tones}"
            st["cur"], st["last"] = f, f
        if dur is not None:
            err = silent_end()
            if err:
                return err
            if total_delay != max(0, int(dur)):  # (a negative duration is no wait at all: every sound is bounded)
                return f"play_tone(.., {dur}) waited {total_delay} ms"
            st["cur"] = 0.0
        elif f > 0 and sounding != _round_tone(f):
            return f"play_tone({f}) without duration should keep sounding, pin state {sounding}"
    elif name == "beep":
        f = float(args[0]) if args else (float(kwargs["frequency"]) if "frequency" in kwargs else st["last"])
        on, off, times = kwargs.get("on_ms", 100), kwargs.get("off_ms", 100), kwargs.get("times", 1)
        requested_small_positive = 0 < f < 0.5
        n = max(0, int(times))
        if f <= 0:
            if tones:
                return f"beep with frequency {f} started a tone"
        else:
            if len(tones) != n:
                return f"beep(times={times}) at {f} Hz sounded {len(tones)} times"
            if any(t[1] != _round_tone(f) for t in tones):
                return f"beep at {f} Hz used tones {tones}"
            # each tone is followed by the on-gap and a noTone; off-gaps only between beeps
            i = 0
            for b in range(n):
                while i < len(events) and events[i][0] != "tone":
                    i += 1
                i += 1
                got_on = 0
                while i < len(events) and events[i][0] == "delay":
                    got_on += events[i][1]
                    i += 1
                if got_on != max(0, int(on)):
                    return f"beep on-gap {got_on} ms, expected {max(0, int(on))}"
                if i >= len(events) or events[i][0] != "notone":
                    return "beep: tone not followed by noTone"
                i += 1
                got_off = 0
                while i < len(events) and events[i][0] == "delay":
                    got_off += events[i][1]
                    i += 1
                want_off = max(0, int(off)) if b + 1 < n else 0
                if got_off != want_off:
                    return f"beep off-gap after beep {b} is {got_off} ms, expected {want_off}"
            if n > 0:
                st["last"] = f
        if n > 0 or True:
            err = silent_end() if n > 0 else None
            if err:
                return err
        if n > 0:
            st["cur"] = 0.0
    elif name == "sweep":
        s, e = float(args[0]), float(args[1])
        dur, steps = kwargs["duration_ms"], kwargs.get("steps", 10)
        n = max(1, int(steps))
        s, e = max(0.0, s), max(0.0, e)
        want = [(e if n == 1 else s + (e - s) * (i / (n - 1))) for i in range(n)]
        requested_small_positive = any(0 < w < 0.5 for w in want)
        want_tones = [_round_tone(w) for w in want if w > 0]
        got = [t[1] for t in tones]
        if len(got) != len(want_tones):
            return f"sweep({args}, steps={steps}) played {len(got)} tones, expected {len(want_tones)}"
        if any(abs(g - w) > 1 for g, w in zip(got, want_tones)):
            return f"sweep tones {got}, expected about {want_tones}"
        if got:
            up = e >= s
            if any((b < a) if up else (b > a) for a, b in zip(got, got[1:])):
                return f"sweep is not monotone: {got}"
            if e > 0 and got[-1] != _round_tone(e):
                return f"sweep ends on {got[-1]}, end frequency {e}"
            if n > 1 and s > 0 and got[0] != _round_tone(s):
                return f"sweep starts on {got[0]}, start frequency {s}"
            sounded = [w for w in want if w > 0]
            st["last"] = float(sounded[-1]) if sounded else st["last"]  # the tone last SOUNDED (a sweep may end on silence)
        if total_delay > max(0, int(dur)):
            return f"sweep waited {total_delay} ms > duration {dur}"
        err = silent_end()
        if err:
            return err
        st["cur"] = 0.0
    elif name == "melody":
        tempo_default, score = MELODIES[args[0].lower()]
        tempo = kwargs.get("tempo")
        tempo = tempo_default if (tempo is None or tempo <= 0) else float(tempo)
        beat_ms = 60000.0 / tempo
        i = 0
        for f, beats in score:
            want_ms = beats * beat_ms
            if f > 0:
                while i < len(events) and events[i][0] == "notone":
                    i += 1
                if i >= len(events) or events[i] != ("tone", _round_tone(f)):
                    return f"melody {args[0]}: expected tone {_round_tone(f)}, got {events[i] if i < len(events) else 'end'}"
                i += 1
            else:
                if i < len(events) and events[i][0] == "tone":
                    return f"melody {args[0]}: a rest was played as {events[i]}"
                while i < len(events) and events[i][0] == "notone":
                    i += 1
            got = 0
            while i < len(events) and events[i][0] == "delay":
                got += events[i][1]
                i += 1
            if not (want_ms - 1.0 < got <= want_ms + 1e-6):
                return f"melody {args[0]} tempo {tempo}: note lasted {got} ms, expected {want_ms:.2f}"
            if f > 0:
                st["last"] = f
        rest = [e for e in events[i:] if e[0] == "tone"]
        if rest:
            return f"melody {args[0]}: extra tones {rest}"
        err = silent_end()
        if err:
            return err
        st["cur"] = 0.0
    # tone(0) / tone with non-positive request
    for t in tones:
        if t[1] <= 0 and not requested_small_positive:
            return f"tone({t[1]}) issued"
    # getters
    try:
        g_state, g_cur, g_last = getters[0], float(getters[1]), float(getters[2])
    except (ValueError, IndexError):
        return f"getter output {getters}"
    want_state = "1" if st["sounding_pin"] is not None else "0"
    if g_state != want_state:
        return f"get_state() = {g_state}, pin sounding = {st['sounding_pin']}"
    if abs(g_cur - st["cur"]) > 0.006 + 1e-4 * abs(st["cur"]):
        return f"get_frequency() = {g_cur}, expected {st['cur']}"
    if abs(g_last - st["last"]) > 0.006 + 1e-4 * abs(st["last"]):
        return f"get_last_frequency() = {g_last}, expected {st['last']}"
    return None


def monitor(case, dr) -> Optional[str]:
    ops_list = case["ops"]
    recvs = case.get("recvs") or ["bz"] * len(ops_list)
    states = {r: {"sounding_pin": None, "cur": 0.0, "last": DEFAULT_FREQ[r]} for r in PINS}
    # split the trace at 'call k' markers
    calls: List[Tuple[List[tuple], List[str]]] = []
    cur_events: Optional[List[tuple]] = None
    cur_getters: List[str] = []
    for ev in dr.events:
        if ev.kind == "serial":
            text = unhex(ev.args[0]) if ev.args else ""
            if text.startswith("call "):
                if cur_events is not None:
                    calls.append((cur_events, cur_getters))
                cur_events, cur_getters = [], []
            elif cur_events is not None:
                cur_getters.append(text)
            continue
        if cur_events is None or cur_getters:
            continue
        if ev.kind == "tone":
            cur_events.append(("tone", int(ev.args[1]), int(ev.args[0])))
        elif ev.kind == "notone":
            cur_events.append(("notone", int(ev.args[0])))
        elif ev.kind == "delay":
            cur_events.append(("delay", int(ev.args[0])))
    if cur_events is not None:
        calls.append((cur_events, cur_getters))
    reps = 2 if case["placement"] == "loop" else 1
    if len(calls) != len(ops_list) * reps:
        return f"{len(calls)} call segments in the trace, expected {len(ops_list) * reps}"
    for k, (events, getters) in enumerate(calls):
        op = ops_list[k % len(ops_list)]
        if case.get("ops_by_pass"):
            op = case["ops_by_pass"][min(k // len(ops_list), 1)][k % len(ops_list)]
        recv = recvs[k % len(ops_list)]
        pin = PINS[recv]
        mine: List[tuple] = []
        for e in events:
            if e[0] == "tone":
                if e[2] != pin:
                    return f"call #{k} on {recv} (pin {pin}) produced tone on pin {e[2]}"
                mine.append(("tone", e[1]))
            elif e[0] == "notone":
                if e[1] != pin:
                    return f"call #{k} on {recv} (pin {pin}) produced noTone on pin {e[1]}"
                mine.append(("notone",))
            else:
                mine.append(e)
        op = _resolve_self(op, states[recv])
        err = check_call(op, mine, getters, states[recv])
        if err:
            return f"call #{k} {op[0]}: {err}"
    return None


def judge(case, tr, dev_runs, host_runs):
    if tr.status in ("reject", "syntax"):
        return "reject", tr.error or ""
    if tr.status != "ok":
        return "transpile_" + tr.status, tr.error or ""
    if dev_runs is None:
        return "nocompile", "; ".join(case.get("_compile_errors", []))[:300]
    dr = dev_runs[0]
    if not dr.ok:
        return "violation", f"firmware did not run cleanly: {dr.faults[:2]} exit={dr.exit_code}"
    err = monitor(case, dr)
    if err:
        return "violation", err
    return "match", ""


def main(tier: str, seed: int, only=None) -> int:
    report = Report(ID, LEVEL, tier, seed)
    common.drive(report, MOD, generate(tier, only), opts={"host": False}, batch_size=48, bad=("violation", "nocompile", "reject", "transpile_crash", "transpile_timeout"))
    all_ops = ops(tier)
    report.bounds = {"alphabet": len(all_ops), "sequences": "all singles (setup and loop, literal and run-time); core x all and all x core pairs (quick); all pairs + core triples (thorough)"}
    report.add_sample({"script": build((3, 30), all_ops, "lit", "setup")["src"].splitlines()[7:]})
    report.add_sample({"runtime": build((60,), all_ops, "rt", "setup")["src"].splitlines()[7:]})
    return report.finish(
        rule="every call sequence up to the bound is transpiled, compiled and run; a protocol monitor derived from the property text checks every call's tone/noTone/delay events and the three getters; distinct = distinct firmware texts",
        assumptions=evidence.COMMON_ASSUMPTIONS + ["the score table in this file is a golden copy of the seven named melodies", "getter values are read through Serial with two decimals"],
    )


def replay(path: str) -> int:
    return common.replay_program(ID, MOD, path, opts={"host": False}, bad=("violation", "nocompile", "reject"))
