#ifndef REDU_MOCK_LIQUIDCRYSTAL_H
#define REDU_MOCK_LIQUIDCRYSTAL_H
#include <Arduino.h>
#include "redu_lcd_model.h"
class LiquidCrystal : public redu_rt::LcdModel {
 public:
  LiquidCrystal(int rs, int en, int d4, int d5, int d6, int d7) { (void)rs; (void)en; (void)d4; (void)d5; (void)d6; (void)d7; }
  LiquidCrystal(int rs, int rw, int en, int d4, int d5, int d6, int d7) { (void)rs; (void)rw; (void)en; (void)d4; (void)d5; (void)d6; (void)d7; }
  void begin(int cols, int rows) { model_begin(cols, rows, "begin"); }
};
#endif
