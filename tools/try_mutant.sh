#!/bin/bash
# usage: tools/try_mutant.sh <patch.diff> <check id> [extra check args]
# Applies the patch to a scratch copy of the committed /repo/src (git archive HEAD) (outside /repo and /verif), runs the check against it
# via REDUINO_SRC and removes the copy.  Never touches /repo.
set -u
patch=$(readlink -f "$1"); shift
id="$1"; shift
scratch=$(mktemp -d /tmp/redu-mut-XXXXXX)
git -C /repo archive HEAD src | tar -x -C "$scratch"
( cd "$scratch" && patch -p1 -s < "$patch" ) || { echo "patch failed"; rm -rf "$scratch"; exit 9; }
VERIF_EVIDENCE_DIR="$scratch/evidence" REDUINO_SRC="$scratch/src" /verif/check "$id" "$@"
code=$?
rm -rf "$scratch"
echo "mutant exit code: $code"
exit $code
