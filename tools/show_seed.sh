#!/bin/bash
# usage: tools/show_seed.sh <seed dir>...   -- print summary / manifests_when of seeds
for d in "$@"; do /venv/bin/python - "$d" <<'PY'
import json,sys
d=sys.argv[1]
m=json.load(open(d+'/meta.json'))
print('=====',d); print('SUMMARY:',m.get('summary','')[:700]); print('WHEN:',m.get('manifests_when','')[:900])
PY
done
