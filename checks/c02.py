"""C02 — type inference is sound: no value is narrowed or re-typed on the device.

For one name v: every typed source (17 kinds: literals, expressions of inputs, conditional expressions,
mixed arithmetic, true division, helper results, list elements) x every scope of the assignment (top
level, if / else branch, for / while / try body, nested, helper body, main loop), followed by
type-revealing observers (the value itself, v * 2, an f-string, a derived variable, a helper round trip,
use in the next loop pass).  All ordered pairs of assignments (type classes x scopes) whose declared type
can represent both values.  Parameters: all ordered pairs of call sites with differently typed arguments.
Results: all pairs of return expressions of different types in different branches.  Oracle: the values
printed by the firmware equal the values CPython prints (int vs float formatting is not a difference, a
value difference of any size is).
"""
from __future__ import annotations

import itertools
import json
from typing import Dict, Iterator, List, Optional, Sequence, Tuple

from rmc import evidence
from rmc.runner import Report
from . import common

ID = "C02"
LEVEL = "model_checking"
MOD = "checks.c02"
PRO = common.PROLOGUE + "from Reduino.Actuators import Servo, DCMotor\n"

HELPERS = ["def inc(p):", "    return p + 1", "def half(p):", "    return p / 2", "def tag(p):", '    return "t" + str(p)', "def idf(p):", "    return p"]
HEAD = ['a = analog_read("A0")', "li = [3, 4]", "lf = [1.5, 2.25]", "mot = DCMotor(4, 7, 11)", "mot.set_speed(0.25)", "srv = Servo(10)", "srv.write(45.5)"]

# name -> (expression, type class)
SOURCES: Dict[str, Tuple[str, str]] = {
    "int_lit": ("3", "int"), "float_lit": ("2.5", "float"), "bool_lit": ("True", "bool"), "str_lit": ('"s"', "str"),
    "int_expr": ("a + 1", "int"), "float_expr": ("a * 0.5", "float"), "bool_expr": ("a > 2", "bool"), "str_expr": ('str(a) + "x"', "str"),
    "ifexp_int": ("a if a > 2 else 0", "int"), "ifexp_float": ("1.5 if a > 2 else 2.5", "float"), "ifexp_mixed": ("a if a > 4 else 0.5", "float"),
    "binop_mixed": ("a + 0.25", "float"), "div": ("a / 4", "float"), "call_int": ("inc(a)", "int"), "call_float": ("half(a)", "float"), "call_str": ("tag(a)", "str"),
    "list_int": ("li[1]", "int"), "list_float": ("lf[1]", "float"), "neg_float": ("-2.5", "float"), "cast_float": ("float(a)", "float"), "cast_int": ("int(2.75)", "int"),
    "fstring": ('f"v{a}"', "str"), "not_expr": ("not (a > 2)", "bool"),
    # arithmetic on truth values is integer arithmetic
    "neg_bool": ("-(a > 2)", "int"), "pos_bool": ("+(a > 2)", "int"), "inv_bool": ("~(a > 2)", "int"), "neg_bool_lit": ("-True", "int"), "bool_sum": ("(a > 2) + (a > 1)", "int"),
    "bool_scaled": ("(a > 2) * 3", "int"), "bool_half": ("(a > 2) / 2", "float"), "neg_not": ("-(not (a > 9))", "int"),
    # device getters
    "get_speed": ("mot.get_speed()", "float"), "get_applied": ("mot.get_applied_speed() * 2", "float"), "get_mode": ("mot.get_mode()", "str"), "is_inverted": ("mot.is_inverted()", "bool"),
    "servo_read": ("srv.read()", "float"), "servo_read_us": ("srv.read_us() / 2", "float"),
}


def observers(v: str, cls: str, tagname: str) -> List[str]:
    out = [f"mon.write({v})", f'mon.write(f"{{{v}}}|")', f"d_{tagname} = {v}", f"mon.write(d_{tagname})", f"mon.write(idf({v}))" if cls != "str" else f"mon.write(tag({v}))"]
    if cls in ("int", "float"):
        out += [f"mon.write({v} * 2)", f"mon.write({v} + 0.25)"]
        # a variable / helper result that STARTS as this value and then grows: the declared type must hold the sum
        out += [f"acc_{tagname} = {v}", f"acc_{tagname} = acc_{tagname} + {v} + 2", f"mon.write(acc_{tagname})", f"ret_{tagname} = idf({v})", f"ret_{tagname} = ret_{tagname} * 3 + 1", f"mon.write(ret_{tagname})"]
    if cls == "str":
        out += [f'mon.write({v} + "!")', f"mon.write(len({v}))"]
    if cls == "bool":
        out += [f"if {v}:", '    mon.write("yes")', "else:", '    mon.write("no")']
    return out


SCOPES = ["top", "if", "else", "for", "while", "try", "nested", "loop", "loop_if"]


def place(scope: str, stmt: List[str]) -> Tuple[List[str], List[str]]:
    """Returns (setup lines, loop lines or None marker) that execute ``stmt`` in the given scope."""
    if scope == "top":
        return stmt, []
    if scope == "if":
        return ["if a >= 0:"] + common.indent(stmt), []
    if scope == "else":
        return ["if a < 0:", "    zz = 0", "else:"] + common.indent(stmt), []
    if scope == "for":
        return ["for i in range(2):"] + common.indent(stmt), []
    if scope == "while":
        return ["kk = 0", "while kk < 2:", "    kk += 1"] + common.indent(stmt), []
    if scope == "try":
        return ["try:"] + common.indent(stmt) + ["except:", "    zz2 = 0"], []
    if scope == "nested":
        return ["for i in range(2):", "    if i == 1:"] + common.indent(stmt, 2), []
    if scope == "loop":
        return [], stmt
    if scope == "loop_if":
        return [], ["if a >= 0:"] + common.indent(stmt)
    raise KeyError(scope)


def build(assigns: Sequence[Tuple[str, str]], tagname: str, forms: Optional[Sequence[str]] = None) -> dict:
    """assigns: [(source name, scope)], executed in order on the same variable v.
    forms[k] = "plain" (v = e) or "tuple" (v, side_k = e, k)."""
    setup: List[str] = list(HEAD)
    loop: List[str] = []
    final_cls = SOURCES[assigns[-1][0]][1]
    in_loop = False
    for k, (src, scope) in enumerate(assigns):
        expr, cls = SOURCES[src]
        stmt = f"v = {expr}" if not forms or forms[k] == "plain" else f"v, side{k} = {expr}, {k}"
        s_lines, l_lines = place(scope, [stmt])
        if l_lines:
            in_loop = True
        if in_loop and s_lines:
            loop += s_lines
        else:
            setup += s_lines
        loop += l_lines
        # observe after every assignment, in the phase where it happened
        obs = observers("v", cls, f"{tagname}{k}")
        if in_loop:
            loop += obs
        else:
            setup += obs
    if not in_loop:
        loop = ["mon.write(v)", "d_last = v", "mon.write(d_last)"]
    src_text = common.script(setup, loop, prologue=PRO, defs=HELPERS)
    return {"src": src_text, "runs": [{"passes": 2, "ar": {"A0": [a]}} for a in (3, 6)]}


def can_hold(first: str, second: str) -> bool:
    """Type classes whose first-declared C++ type represents the second value (the transpiler declares
    a name with the type of its first assignment: known finding for the other orders)."""
    if first == second:
        return True
    return (first, second) in {("float", "int"), ("float", "bool"), ("int", "bool")}


def gen_single(tier: str) -> Iterator[dict]:
    for sname in SOURCES:
        for scope in SCOPES:
            case = build([(sname, scope)], "s")
            case.update(id=f"A1:{sname}:{scope}", space="A")
            yield case


def gen_pairs(tier: str) -> Iterator[dict]:
    reps = {"int": ["int_lit", "int_expr", "call_int"], "float": ["float_lit", "float_expr", "div", "ifexp_mixed"], "bool": ["bool_lit", "bool_expr"], "str": ["str_lit", "str_expr"]}
    scopes = SCOPES if tier == "thorough" else ["top", "if", "for", "loop", "try"]
    for c1, c2 in itertools.product(reps, repeat=2):
        if not can_hold(c1, c2):
            continue
        for s1, s2 in itertools.product(reps[c1][: (4 if tier == "thorough" else 2)], reps[c2][: (4 if tier == "thorough" else 2)]):
            for sc1, sc2 in itertools.product(scopes, repeat=2):
                if sc1.startswith("loop") and not sc2.startswith("loop"):
                    continue
                case = build([(s1, sc1), (s2, sc2)], "p")
                case.update(id=f"A2:{s1}@{sc1}>{s2}@{sc2}", space="A")
                yield case


def gen_tuple_forms(tier: str) -> Iterator[dict]:
    """The same ordered pairs / triples with one or more of the assignments written as a tuple assignment."""
    reps = {"int": ["int_lit", "int_expr"], "float": ["float_lit", "float_expr"], "bool": ["bool_expr"], "str": ["str_expr"]}
    scopes = ["top", "if", "loop"]
    for c1, c2 in itertools.product(reps, repeat=2):
        if not can_hold(c1, c2):
            continue
        for s1, s2 in itertools.product(reps[c1], reps[c2]):
            for sc1, sc2 in itertools.product(scopes, repeat=2):
                if sc1.startswith("loop") and not sc2.startswith("loop"):
                    continue
                for forms in (("tuple", "plain"), ("plain", "tuple"), ("tuple", "tuple")):
                    case = build([(s1, sc1), (s2, sc2)], "q", forms)
                    case.update(id=f"A2t:{s1}@{sc1}>{s2}@{sc2}:{'+'.join(forms)}", space="A")
                    yield case
    for c1, c2, c3 in itertools.product(reps, repeat=3):
        if not (can_hold(c1, c2) and can_hold(c1, c3)) or (c1 == c2 == c3):
            continue
        for forms in (("plain", "tuple", "plain"), ("plain", "tuple", "tuple")):
            case = build([(reps[c1][0], "top"), (reps[c2][0], "top"), (reps[c3][0], "top")], "r", forms)
            case.update(id=f"A3t:{c1}>{c2}>{c3}:{'+'.join(forms)}", space="A")
            yield case


def gen_triples(tier: str) -> Iterator[dict]:
    """Three assignments in a row (thorough): every order of type classes the first declared type can hold."""
    if tier != "thorough":
        return
    reps = {"int": ["int_lit", "int_expr"], "float": ["float_expr", "div"], "bool": ["bool_expr"], "str": ["str_expr"]}
    scopes = ["top", "if", "for", "loop"]
    for c1, c2, c3 in itertools.product(reps, repeat=3):
        if not (can_hold(c1, c2) and can_hold(c1, c3)):
            continue
        for s1, s2, s3 in itertools.product(reps[c1], reps[c2], reps[c3]):
            for sc in itertools.product(scopes, repeat=3):
                order = [x.startswith("loop") for x in sc]
                if order != sorted(order):
                    continue
                case = build([(s1, sc[0]), (s2, sc[1]), (s3, sc[2])], "t")
                case.update(id=f"A3:{s1}@{sc[0]}>{s2}@{sc[1]}>{s3}@{sc[2]}", space="A")
                yield case


ARGS = {"int": ["3", "a"], "float": ["2.5", "a * 0.5"], "bool": ["True", "a > 2"], "str": ['"q"', '"hi" if a > 2 else "lo"', 'str(a)']}


def gen_params(tier: str) -> Iterator[dict]:
    fn = ["def show(p):", "    mon.write(p)", "    return p", "def twice(p):", "    q = p + p", "    mon.write(q)", "    return q", "def pair(p, q):", "    mon.write(p)", "    mon.write(q)", "    return p"]
    sites = []
    for cls, exprs in ARGS.items():
        for e in exprs:
            sites.append((cls, e))
    for (c1, e1), (c2, e2) in itertools.product(sites, repeat=2):
        for fname in ("show", "twice"):
            for form in ("assign", "assign_loop"):
                lines1 = [f"r1 = {fname}({e1})", "mon.write(r1)"]
                lines2 = [f"r2 = {fname}({e2})", "mon.write(r2)"]
                if form == "assign":
                    src = common.script(HEAD + lines1 + lines2, ["mon.write(r2)"], prologue=PRO, defs=fn)
                else:
                    src = common.script(HEAD + lines1, lines2, prologue=PRO, defs=fn)
                yield {"id": f"P:{fname}:{form}:{e1}|{e2}", "space": "P", "src": src, "runs": [{"passes": 2, "ar": {"A0": [6]}}]}
    for (c1, e1), (c2, e2) in itertools.product(sites, repeat=2):
        src = common.script(HEAD + [f"r1 = pair({e1}, {e2})", "mon.write(r1)", f"r3 = pair({e2}, {e1})", "mon.write(r3)"], None, prologue=PRO, defs=fn)
        yield {"id": f"P:pair:{e1}|{e2}", "space": "P", "src": src, "runs": [{"passes": 0, "ar": {"A0": [6]}}]}


RET = {"int": ["7", "v + 1"], "float": ["1.5", "v * 0.5", "v / 2"], "bool": ["False", "v > 3"], "str": ['"r"', "str(v)"]}


def gen_returns(tier: str) -> Iterator[dict]:
    items = [(c, e) for c, es in RET.items() for e in es]
    for (c1, e1), (c2, e2) in itertools.product(items, repeat=2):
        if "str" in (c1, c2) and c1 != c2:
            continue  # Python would return str or number depending on the path: the transpiler rejects this mix
        fn = ["def pick(v):", "    if v < 5:", f"        return {e1}", f"    return {e2}"]
        for args in (("3", "7"), ("a", "a + 4")):
            body = [f"r1 = pick({args[0]})", "mon.write(r1)", f"r2 = pick({args[1]})", "mon.write(r2)", "t = r2", "mon.write(t)"]
            if c1 not in ("str",) and c2 not in ("str",):
                body += ["mon.write(r1 + 0.5)", "mon.write(r2 * 2)"]
            for placement in ("setup", "loop"):
                src = common.script(HEAD + body, ["mon.write(r2)"], prologue=PRO, defs=fn) if placement == "setup" else common.script(HEAD, body, prologue=PRO, defs=fn)
                yield {"id": f"R:{e1}|{e2}:{args[0]}:{placement}", "space": "R", "src": src, "runs": [{"passes": 2, "ar": {"A0": [2]}}, {"passes": 1, "ar": {"A0": [6]}}]}
    # three-way joins and annotated returns
    for combo in (("7", "1.5", "v > 3"), ("v > 3", "7", "7"), ("False", "v + 1", "v * 0.5")):
        fn = ["def tri(v):", "    if v < 3:", f"        return {combo[0]}", "    elif v < 6:", f"        return {combo[1]}", f"    return {combo[2]}"]
        body = ["for i in range(3):", "    r = tri(i * 3)", "    mon.write(r)", "    mon.write(r + 1)"]
        yield {"id": f"R3:{'|'.join(combo)}", "space": "R", "src": common.script(HEAD + body, None, prologue=PRO, defs=fn), "runs": [{"passes": 0, "ar": {"A0": [2]}}]}


# ---- H: helpers with two parameters: every ordered pair of call signatures x bodies that are sensitive to the
# parameter's type (floor division, re-binding the parameter to a wider value, joins of both parameters)
H_BODIES = {
    "floor": ["return (p // 4) * q"],
    "div": ["return p / q"],
    "rebind_div": ["p = p / q", "return p"],
    "rebind_aug": ["p /= q", "return p"],
    "rebind_add": ["p = p + 0.5", "return p * q"],
    "rebind_q": ["q = q * 0.5", "return p + q"],
    "local": ["r = p * q", "return r"],
    "local_div": ["r = p / 2", "r = r + q", "return r"],
    "cond": ["if p > q:", "    return p", "return q"],
    "loop_acc": ["s = p", "for i in range(2):", "    s = s + p", "return s * q"],
    "nested": ["return inner(p) + q"],
}
H_INNER = ["def inner(x):", "    x = x / 2", "    return x"]
H_ARGS = {"quick": [("int", "7"), ("float", "2.5"), ("int", "a")], "thorough": [("int", "7"), ("float", "2.5"), ("int", "a"), ("float", "a * 0.5"), ("bool", "True")]}


def gen_helpers(tier: str) -> Iterator[dict]:
    args = H_ARGS[tier]
    sigs = list(itertools.product(args, repeat=2))
    for bname, body in H_BODIES.items():
        fn = H_INNER + ["def f(p, q):"] + common.indent(body)
        for s1, s2 in itertools.product(sigs, repeat=2):
            if bname == "loop_acc" and "bool" in (s1[0][0], s2[0][0]):
                continue  # `s = p` declares a bool that later takes an int: first-assignment-wins (known finding)
            c1 = f"f({s1[0][1]}, {s1[1][1]})"
            c2 = f"f({s2[0][1]}, {s2[1][1]})"
            # float // follows C on the device (known finding of C01): such a call is made (it creates
            # the helper variant for its signature) but only calls with an int first argument are observed
            ok1 = bname != "floor" or s1[0][0] == "int"
            ok2 = bname != "floor" or s2[0][0] == "int"
            lines = [f"r1 = {c1}"] + (["mon.write(r1)", "mon.write(r1 + 0.25)"] if ok1 else []) + [f"r2 = {c2}"] + (["mon.write(r2)", "mon.write(r2 + 0.25)"] if ok2 else [])
            if ok1 and ok2:
                lines.append(f"mon.write({c1} + {c2})")
            for placement in (("setup", "loop") if tier == "thorough" else ("setup",)):
                src = common.script(HEAD + lines, None, prologue=PRO, defs=fn) if placement == "setup" else common.script(HEAD, lines, prologue=PRO, defs=fn)
                yield {"id": f"H:{bname}:{c1}|{c2}:{placement}", "space": "H", "src": src, "runs": [{"passes": 1 if placement == "loop" else 0, "ar": {"A0": [6]}}]}


# ---- N: a typed name is reused by a construct that has its own scope in Python (comprehension variable, helper
# parameter, helper local, loop variable of a helper): the outer name keeps its type and value
N_OUTER = {"float_lit": ("0.25", "float"), "float_expr": ("a * 0.5", "float"), "int_expr": ("a + 1", "int"), "bool_expr": ("a > 2", "bool"), "str_lit": ('"s"', "str")}
N_SHADOW = {
    "comp": ([], ["sq = [t * 2 for t in range(3)]", "mon.write(sq[2])"]),
    "comp_sq": ([], ["sq = [t * t + 1 for t in range(1, 4)]", "mon.write(sq[1])"]),
    "comp_in_helper": (["def h(t):", "    sq = [t + 1 for t in range(3)]", "    return sq[1]"], ["mon.write(h(4))"]),
    "param": (["def h(t):", "    return t * 2"], ["mon.write(h(4))"]),
    "param_float": (["def h(t):", "    return t * 2"], ["mon.write(h(1.5))"]),
    "helper_local": (["def h(p):", "    t = p + 1", "    return t"], ["mon.write(h(4))"]),
    "helper_tuple": (["def h(p):", "    t, u9 = p * 0.5, p + 1", "    return t + u9"], ["mon.write(h(4))"]),
    "helper_tuple_swap": (["def h(p):", "    t, u9 = 1.5, 2.5", "    t, u9 = u9, t", "    return t"], ["mon.write(h(4))"]),
    "helper_for": (["def h(p):", "    s = 0", "    for t in range(p):", "        s = s + t", "    return s"], ["mon.write(h(4))"]),
}


def gen_names(tier: str) -> Iterator[dict]:
    for (oname, (oexpr, cls)), (sname, (defs, use)) in itertools.product(N_OUTER.items(), N_SHADOW.items()):
        for placement in ("setup", "loop", "split"):
            after = observers("t", cls, "n")
            if cls in ("int", "float"):
                after += ["period = t * 3", "mon.write(period)", "mon.write(idf(t))"]
            first = [f"t = {oexpr}"]
            if placement == "setup":
                # the shadowing helper is defined after the outer name exists
                src = common.script(HEAD + first + defs + use + after, ["mon.write(t)"], prologue=PRO, defs=HELPERS)
            elif placement == "loop":
                src = common.script(HEAD, first + use + after, prologue=PRO, defs=HELPERS + defs)
            else:
                src = common.script(HEAD + first, use + after, prologue=PRO, defs=HELPERS + defs)
            yield {"id": f"N:{oname}:{sname}:{placement}", "space": "N", "src": src, "runs": [{"passes": 2, "ar": {"A0": [a]}} for a in (3, 6)]}
        # the same inside a helper: the typed name is the helper's parameter
        if cls in ("int", "float") and sname.startswith("comp") and sname != "comp_in_helper":
            fn = ["def g(t):"] + common.indent(use[:1]) + ["    span = t * 3", "    return span + sq[1]"]
            src = common.script(HEAD + [f"w = g({oexpr})", "mon.write(w)", "mon.write(w + 0.25)"], None, prologue=PRO, defs=HELPERS + fn)
            yield {"id": f"N:{oname}:{sname}:in_helper", "space": "N", "src": src, "runs": [{"passes": 0, "ar": {"A0": [a]}} for a in (3, 6)]}


# ---- T: helper topology: caller above / below the callee x which call types exist x how the result is used
T_CALLEE = {
    "scale": ["def scaled(x):", "    return x * 3"],
    "scale_local": ["def scaled(x):", "    y = x * 3", "    return y"],
    "scale_div": ["def scaled(x):", "    return x / 2"],
}
T_CALLER = {
    "direct": ["def report(x):", "    mon.write(scaled(x))"],
    "local": ["def report(x):", "    r = scaled(x)", "    mon.write(r)", "    return r"],
    "twice": ["def report(x):", "    return scaled(scaled(x))"],
    "mixed": ["def report(x):", "    return scaled(x) + scaled(2)"],
}
T_RECURSIVE = {
    "settle_local": ["def settle(n):", "    if n <= 0:", "        return 1.0", "    prev = settle(n - 1)", "    return prev / 2 + 0.75"],
    "settle_direct": ["def settle(n):", "    if n <= 0:", "        return 1.0", "    return settle(n - 1) / 2 + 0.75"],
    "sum_local": ["def total(n):", "    if n <= 0:", "        return 0", "    rest = total(n - 1)", "    return rest + n * 0.5"],
    "fact_int": ["def fact(n):", "    if n <= 1:", "        return 1", "    sub = fact(n - 1)", "    return sub * n"],
    "mutual": ["def even(n):", "    if n == 0:", "        return 1.5", "    return odd(n - 1)", "def odd(n):", "    if n == 0:", "        return 0.5", "    v = even(n - 1)", "    return v"],
}
T_GLOBAL = [
    # (helper value, sketch value, derived use)
    ("1.75", "0", "top"), ("1.75", "0", "loop"), ("0.5", "a", "top"), ("2", "0.5", "top"), ("a * 0.5", "1", "loop"), ("True", "3", "top"),
]


def gen_topology(tier: str) -> Iterator[dict]:
    calls_sets = [("2", "2.5"), ("2.5", "2"), ("2.5",), ("2",), ("a", "a * 0.5"), ("a * 0.5", "a", "2.5")]
    headers = ["def scaled(x):", "def scaled(x):  # scale it", "def scaled( x ) :", "def  scaled(x) :   # two notes # here"]
    for (cn, callee), (rn, caller) in itertools.product(T_CALLEE.items(), T_CALLER.items()):
        for order, header in [("caller-first", h) for h in headers] + [("callee-first", headers[0])]:
            callee = [header] + callee[1:]
            defs = (caller + callee) if order == "caller-first" else (callee + caller)
            order = order + (":" + str(headers.index(header)) if header != headers[0] else "")
            for ci, calls in enumerate(calls_sets):
                lines = []
                for k, arg in enumerate(calls):
                    lines += [f"t{k} = report({arg})", f"mon.write(t{k})"] if rn != "direct" else [f"report({arg})"]
                for placement in ("setup", "loop"):
                    src = common.script(HEAD + lines, None, prologue=PRO, defs=defs) if placement == "setup" else common.script(HEAD, lines, prologue=PRO, defs=defs)
                    yield {"id": f"T:{cn}:{rn}:{order}:{ci}:{placement}", "space": "T", "src": src, "runs": [{"passes": 1 if placement == "loop" else 0, "ar": {"A0": [6]}}]}
    for rname, body in T_RECURSIVE.items():
        fname = body[0].split()[1].split("(")[0]
        for args in (("0", "1", "2", "3"), ("3",), ("a - 4",)):
            lines = []
            for k, arg in enumerate(args):
                lines += [f"u{k} = {fname}({arg})", f"mon.write(u{k})", f"mon.write(u{k} + 0.25)"]
            yield {"id": f"T:rec:{rname}:{'|'.join(args)}", "space": "T", "src": common.script(HEAD + lines, None, prologue=PRO, defs=body), "runs": [{"passes": 0, "ar": {"A0": [6]}}]}
    # recursion that hands its arguments on in another order / combination: every signature the recursion reaches needs
    # its own variant
    multi = {
        "swap": (["def alt(p, q, n):", "    if n == 0:", "        return p", "    return alt(q, p, n - 1)"], "alt"),
        "rotate": (["def rot(p, q, r, n):", "    if n == 0:", "        return p", "    return rot(q, r, p, n - 1)"], "rot"),
        "mix": (["def mixr(p, q, n):", "    if n == 0:", "        return p + q", "    return mixr(q * 0.5, p + 1, n - 1)"], "mixr"),
        "mutual_swap": (["def ping(p, q, n):", "    if n == 0:", "        return p", "    return pong(q, p, n - 1)", "def pong(p, q, n):", "    if n == 0:", "        return q", "    return ping(q, p, n - 1)"], "ping"),
    }
    arg_sets = {3: [("1", "2.5"), ("2.5", "1"), ("a", "0.5"), ("0.5", "a"), ("1", "2"), ("a * 0.5", "a")], 4: [("1", "2.5", "3"), ("2.5", "1", "a"), ("a", "a * 0.5", "2")]}
    for mname, (body, fname) in multi.items():
        arity = 4 if fname == "rot" else 3
        for ai, args in enumerate(arg_sets[arity]):
            for depths in (("3",), ("2", "3"), ("0", "1", "2", "3"), ("a - 4",)):
                lines = []
                for k, d in enumerate(depths):
                    lines += [f"w{k} = {fname}({', '.join(args)}, {d})", f"mon.write(w{k})", f"mon.write(w{k} + 0.25)"]
                yield {"id": f"T:recm:{mname}:{ai}:{'|'.join(depths)}", "space": "T", "src": common.script(HEAD + lines, None, prologue=PRO, defs=body), "runs": [{"passes": 0, "ar": {"A0": [6]}}]}
    for gi, (hval, sval, where) in enumerate(T_GLOBAL):
        defs = ["def push():", "    global level", f"    level = {hval}"]
        use = ["push()", "peak = level", "mon.write(peak)", "mon.write(peak + 0.25)"]
        for first in ("assign", "call"):
            pre = [f"level = {sval}"] if first == "assign" else ["push()", f"level = {sval}"]
            src = common.script(HEAD + pre + (use if where == "top" else ["mon.write(level)"]), use if where == "loop" else ["mon.write(level)"], prologue=PRO, defs=defs)
            yield {"id": f"T:glob:{gi}:{first}", "space": "T", "src": src, "runs": [{"passes": 2, "ar": {"A0": [6]}}]}


def judge(case, tr, dev_runs, host_runs):
    from rmc.pipeline import default_judge

    outcome, detail = default_judge(case, tr, dev_runs, host_runs, check_lcd=False)
    if outcome == "nocompile":
        # an accepted script whose variable was declared with a type that cannot take the assigned value
        return "violation", "declared type cannot take the assigned value (does not compile): " + detail
    return outcome, detail


def generate(tier: str, only=None) -> Iterator[dict]:
    if not only or "A" in only:
        yield from gen_single(tier)
        yield from gen_pairs(tier)
        yield from gen_triples(tier)
        yield from gen_tuple_forms(tier)
    if not only or "P" in only:
        yield from gen_params(tier)
    if not only or "R" in only:
        yield from gen_returns(tier)
    if not only or "H" in only:
        yield from gen_helpers(tier)
    if not only or "N" in only:
        yield from gen_names(tier)
    if not only or "T" in only:
        yield from gen_topology(tier)


def main(tier: str, seed: int, only=None) -> int:
    report = Report(ID, LEVEL, tier, seed)
    common.drive(report, MOD, generate(tier, only), opts={"host_timeout": 5.0}, batch_size=40, bad=("violation", "transpile_crash", "transpile_timeout"))
    report.bounds = {"sources": len(SOURCES), "scopes": len(SCOPES), "pairs": "type-class pairs whose first declared type can hold the second value x 2 sources each x 5 scopes^2 (quick) / 4 sources x 9 scopes^2 (thorough)",
                     "params": "all ordered pairs of 6 argument kinds x 2 helpers x 2 placements + two-parameter helper", "returns": "all pairs of 9 return expressions (str only with str) x 2 argument sets x 2 placements + 3 three-way joins"}
    report.add_sample({"assign": "float_expr@for > int_lit@loop", "script": build([("float_expr", "for"), ("int_lit", "loop")], "p")["src"].splitlines()[14:]})
    return report.finish(
        rule="complete products source x scope (+ ordered pairs), argument-type pairs, return-type pairs; every program is run on the mock core and its printed values compared with CPython; distinct = distinct firmware texts",
        assumptions=evidence.COMMON_ASSUMPTIONS + ["re-assignments whose value cannot be represented by the type of the FIRST assignment (int then float, bool then int, number and str) are a known finding and are kept out of the product (witnesses in known_findings.json)"],
    )


def replay(path: str) -> int:
    return common.replay_program(ID, MOD, path, bad=("violation",))
