"""C01 — reject-or-preserve for the core language (DESIGN.md §2 C01).

Bounded-exhaustive, prefix-closed exploration of five program sub-spaces (E expressions, S statement
sequences, K control-flow skeletons, F helper functions, L lists).  Every program is transpiled by
the real parse()/emit(), compiled, *run* on the mock core for every input vector and every number of
loop() passes, and compared with CPython running the same text.
"""
from __future__ import annotations

import itertools
from typing import Dict, Iterator, List, Optional, Sequence

from rmc import evidence
from rmc.runner import Report
from . import common

ID = "C01"
LEVEL = "model_checking"
MOD = "checks.c01"

OFF = 10  # analog inputs are non-negative; scripts subtract OFF to obtain negative values


def _inputs(pairs, passes_list) -> List[dict]:
    runs = []
    for passes in passes_list:
        for a, b in pairs:
            # later reads of the same channel see a changing signal
            runs.append({"passes": passes, "ar": {"A0": [a + OFF, a + OFF + 3, max(0, a + OFF - 4), a + OFF + 1], "A1": [b + OFF]}})
    return runs


AB_FULL = [(a, b) for a in (-7, -1, 0, 2, 9) for b in (-7, -1, 0, 2, 9)]
AB_SMALL = [(-7, 2), (0, 0), (2, -1), (9, 9), (-1, -7)]

INIT_AB = [f'a = analog_read("A0") - {OFF}', f'b = analog_read("A1") - {OFF}']


# ----------------------------------------------------------------------------------------------
# E — expressions
# ----------------------------------------------------------------------------------------------
LEAVES = ["a", "b", "2", "-3", "1.5"]
BOOL_LEAVES = ["a < b", "a == 2", "b >= 0"]
ARITH = ["+", "-", "*"]
CMP = ["<", "<=", ">", ">=", "==", "!="]


def _arith_d1() -> List[str]:
    out = []
    for op in ARITH:
        for l in LEAVES:
            for r in LEAVES:
                out.append(f"{l} {op} {r}")
    for l in LEAVES:
        out.append(f"-({l})")
        out.append(f"abs({l})")
        out.append(f"int({l})")
        out.append(f"float({l})")
    for l in LEAVES:
        for r in LEAVES:
            out.append(f"min({l}, {r})")
            out.append(f"max({l}, {r})")
    out.append("min(a, b, 2)")
    out.append("max(a, b, 2)")
    # unary operators in every combination of two, with and without parentheses / spaces
    for l in ("a", "2", "1.5", "(a + b)"):
        for u1 in ("-", "+"):
            out.append(f"{u1}{l}")
            for u2 in ("-", "+"):
                out.append(f"{u1}({u2}{l})")
                out.append(f"{u1} {u2}{l}")
                out.append(f"b - {u1}{u2} {l}" if False else f"b {u1} {u2}{l}")
    out += ["-(-(-a))", "a - -b", "a + +b", "a - (-b)", "-a * -b", "-(a) - -(b)", "not not (a < b)", "not (not (not a))", "- - - a"]
    # floor division / modulo: every sign and int / float combination of dividend and (non-zero) divisor
    for l in ("abs(a)", "abs(b)", "7") + tuple(LEAVES) + ("(a * 1.5)", "(a - 1)", "-a"):
        for r in ("2", "3", "(abs(b) + 1)", "-3", "1.5", "-2.5", "(b * 2 + 1)", "(-abs(a) - 1)", "(abs(b) + 0.5)"):
            out.append(f"{l} // {r}")
            out.append(f"{l} % {r}")
    # powers: integer bases with non-negative integer exponents, float bases, roots of non-negative bases
    for l in ("a", "b", "2", "-3", "1.5", "(a / 2)", "(a - b)"):
        for r in ("2", "3", "0", "1", "(abs(b) % 3)"):
            out.append(f"{l} ** {r}")
    out += ["abs(a) ** 0.5", "(abs(b) + 1) ** 1.5", "2 ** (abs(a) % 5)", "-a ** 2", "(-a) ** 2", "a ** 2 ** 1", "2 ** 3 ** 2 % 7", "a * b ** 2", "(a // 2) * 2 + a % 2", "-7 // 2", "-7 % 3", "7 % -3", "-7.5 // 2", "7.5 % -2",
            "(a % 3 + 3) % 3", "a // 2 // 2", "a % 5 % 3", "(a + b) // 2 - (a + b) % 2"]
    return out


def expressions(tier: str) -> List[str]:
    d1 = _arith_d1()
    out: List[str] = list(d1)
    # comparisons of leaves and of depth-1 arithmetic
    cmps = []
    for op in CMP:
        for l in LEAVES:
            for r in LEAVES:
                cmps.append(f"{l} {op} {r}")
    out += cmps
    out += ["a < b < 9", "-7 <= a <= b", "a == b == 2"]
    # boolean structure over comparisons (bool-valued operands: Python and C agree on the value)
    for x in BOOL_LEAVES:
        out.append(f"not ({x})")
        for y in BOOL_LEAVES:
            out.append(f"({x}) and ({y})")
            out.append(f"({x}) or ({y})")
    out.append("(a < b) and (b < 9) and (a != 0)")
    out.append("(a < b) or (b < 0) or (a == 9)")
    out.append("not a")
    out.append("not (a - 2)")
    # and / or over numbers: the value is one of the operands (the first falsy / truthy one)
    for x in LEAVES + ["0", "0.0", "(a - b)", "(a < b)"]:
        for y in LEAVES + ["0", "(a - 2)", "(b >= 0)"]:
            out.append(f"{x} and {y}")
            out.append(f"{x} or {y}")
    out += ["a or b or 5", "a and b and 5", "a and b or 7", "a or b and 7", "(a or b) + 1", "(a and 1.5) * 2", "not (a or b)", "not (a and b)", "a or not b", "(a or 2) if b else (b or 3)", "abs(a or -4)",
            "min(a or 9, b or 9)", "int(a and 2.5)", 'f"{a or b}"', "str(a and b)", "(a - 2) and (b - 2) and (a + b)", "0 or 0.0 or a", "1 and 2 and a and b"]
    # conditional expressions
    for c in BOOL_LEAVES:
        for t, e in (("a", "b"), ("1", "0"), ("a + 1", "b - 1"), ("1.5", "2.5"), ("a", "-a")):
            out.append(f"{t} if {c} else {e}")
    # str / len / f-strings
    # backslashes and quotes inside literals and f-string text
    out += ['"C:\\\\temp\\\\new"', '"a\\\\nb"', 'f"x\\\\{a}"', '"tab\\\\there"', '"q\\"uote"', "'s\\\\'", '"\\\\"', 'f"{a}\\\\{b}\\\\"', '"%d %s \\\\d"', 'len("\\\\n")']
    out += ['str(a)', 'str(a + b)', 'len("abc")', 'len("")', 'f"a={a}"', 'f"{a}{b}"', 'f"{a + b}|{a * 2}|"', 'f"x"', 'f"{1.5}"',
            'f"v={a if a > b else b}"', '"lit"', "'single'", '"a" + "b"', 'str(a) + "!"', '"<" + str(b) + ">"']
    # depth 2: one nested operand
    nested_src = d1 if tier == "thorough" else d1[::7]
    for op in ARITH:
        for inner in nested_src:
            for leaf in (LEAVES if tier == "thorough" else ["a", "-3", "1.5"]):
                out.append(f"({inner}) {op} {leaf}")
                out.append(f"{leaf} {op} ({inner})")
    for op in (CMP if tier == "thorough" else ["<", "==", ">="]):
        for inner in nested_src[:: (1 if tier == "thorough" else 3)]:
            out.append(f"({inner}) {op} b")
    for inner in nested_src:
        out.append(f"abs({inner})")
        out.append(f"-({inner})")
        out.append(f"int(({inner}) * 1.5)")
        out.append(f"min({inner}, b)")
        out.append(f"max(a, {inner})")
    # de-duplicate, keep order
    seen = set()
    uniq = []
    for e in out:
        if e not in seen:
            seen.add(e)
            uniq.append(e)
    return uniq


def gen_E(tier: str) -> Iterator[dict]:
    exprs = expressions(tier)
    pack = 20
    runs = _inputs(AB_FULL if tier == "thorough" else AB_FULL[::2], [0])
    for i in range(0, len(exprs), pack):
        chunk = exprs[i : i + pack]
        setup = list(INIT_AB) + [f"mon.write({e})" for e in chunk]
        yield {"id": f"E:{i}", "src": common.script(setup), "runs": runs, "space": "E", "exprs": chunk}
    # the same trees with literals in place of a, b (constant-folded path)
    lit_pairs = [(-7, 2), (9, -1), (0, 0)]
    for a, b in lit_pairs:
        import re

        folded = []
        for e in exprs:
            if "{" in e:
                continue
            f = re.sub(r"\ba\b", f"({a})", e)
            f = re.sub(r"\bb\b", f"({b})", f)
            folded.append(f)
        for i in range(0, len(folded), pack):
            chunk = folded[i : i + pack]
            setup = [f"mon.write({e})" for e in chunk]
            yield {"id": f"Elit{a}_{b}:{i}", "src": common.script(setup), "runs": [{"passes": 0}], "space": "Elit", "exprs": chunk}


def builtin_expressions() -> List[str]:
    out = []
    for x in ("a * 0.5", "b * 0.5", "a / 4", "a + 0.5", "2.5", "-2.5", "3.5", "0.5", "1.5", "-0.5", "-1.5", "a", "(a - b) * 0.25", "a * 1.5", "b / 8", "a * 0.375", "-a * 0.5", "abs(a) * 0.5 + 1"):
        out += [f"round({x})", f"round({x}) + 1", f"round({x}) * 0.5"]
    for base, e in (("a", "2"), ("b", "3"), ("a / 2", "2"), ("2", "abs(b) % 5"), ("-3", "3"), ("1.5", "2"), ("a", "0"), ("(a - b)", "2"), ("abs(a)", "0.5")):
        out += [f"pow({base}, {e})", f"pow({base}, {e}) + 1"]
    for args in ("a, 0, 10, 0.0, 5.0", "a, -7, 9, 0, 255", "b, 0, 8, 0, 3", "a * 0.5, 0, 1, 10, 20", "512, 0, 1023, 0.0, 5.0", "a, 9, -7, 0, 100", "a + b, -14, 18, -1.0, 1.0", "a, 0, 3, b, -b - 1"):
        out += [f"map({args})", f"map({args}) * 2", f"int(map({args}))", f"round(map({args}))"]
    # list comprehensions over range(start, stop, step): ascending, descending, spans that are not a multiple of the step
    for rng in ("range(10, 0, -3)", "range(9, 0, -3)", "range(0, 10, 4)", "range(0, 9, 3)", "range(abs(a) + 2, 0, -3)", "range(abs(a) + 9, 1, -4)", "range(0, abs(b) + 5, 4)", "range(9, -1, -4)", "range(-3, 8, 5)",
                "range(2, 2)", "range(5, 2)", "range(2, 5, -1)", "range(abs(b), abs(a) + abs(b) + 1, 2)", "range(7, 0, -7)", "range(7, 0, -8)", "range(1, 8)"):
        out += [f"len([i for i in {rng}])", f"len([i * 2 for i in {rng}]) + 1"]
        if rng not in ("range(2, 2)", "range(5, 2)", "range(2, 5, -1)"):  # (an index into an empty list raises in Python: not a well-defined script)
            out += [f"[i + 1 for i in {rng}][-1]", f"[i for i in {rng}][0]"]
    # truth of strings and lists; string comparisons with the literal on either side
    out += ["1 if sp else 2", "1 if se else 2", "bool(sp)", "bool(se)", "not sp", "not se", "bool(lq)", "1 if lq else 0", "not lq", "(a < b) and sp == \"p\"", "\"p\" == sp", "\"a\" < sp", "sp < \"q\"", "sp != se",
            "\"p\" != sp", "\"q\" > sp", "sp == \"p\" == sp", "(1 if sp else 2) + (3 if lq else 4)", "bool(str(a))", "not str()", "1 if (sp and a) else 0", "1 if (se or lq) else 0", "bool(sp) + bool(se) + bool(lq)",
            "len(sp) if sp else -1", "str(a) == \"2\"", "\"2\" == str(a)", "f\"{a}\" < \"5\""]
    return out


def gen_B(tier: str) -> Iterator[dict]:
    """round / pow / Utils.map as expressions and through variables, run-time and literal operands."""
    import re

    exprs = builtin_expressions()
    runs = _inputs(AB_FULL if tier == "thorough" else AB_FULL[::2], [0])
    head = ["from Reduino.Utils import map", 'sp = "p"', 'se = ""', "lq = [1]", "if (1 + 1) > 1:", "    lq.remove(1)"]
    pack = 12
    for i in range(0, len(exprs), pack):
        chunk = exprs[i : i + pack]
        yield {"id": f"B:{i}", "src": common.script(head + list(INIT_AB) + [f"mon.write({e})" for e in chunk]), "runs": runs, "space": "E", "exprs": chunk}
        lines = []
        for k, e in enumerate(chunk):
            lines += [f"v{k} = {e}", f"mon.write(v{k})", f"mon.write(v{k} + 0.5)"]
        yield {"id": f"Bv:{i}", "src": common.script(head + list(INIT_AB) + lines), "runs": runs, "space": "E", "exprs": chunk}
        yield {"id": f"Bl:{i}", "src": common.script(head + list(INIT_AB), lines), "runs": _inputs(AB_SMALL, [2]), "space": "E", "exprs": chunk}
    for a, b in ((-7, 2), (9, -1), (3, 5)):
        folded = [re.sub(r"\bb\b", f"({b})", re.sub(r"\ba\b", f"({a})", e)) for e in exprs]
        for i in range(0, len(folded), pack):
            chunk = folded[i : i + pack]
            yield {"id": f"Blit{a}_{b}:{i}", "src": common.script(head + [f"mon.write({e})" for e in chunk]), "runs": [{"passes": 0}], "space": "Elit", "exprs": chunk}


# ----------------------------------------------------------------------------------------------
# S — statement sequences over two ints, one float, one string
# ----------------------------------------------------------------------------------------------
S_INIT_RT = INIT_AB + ["x = a", "y = b", "z = 3", "f = 1.5", 's = "p"']
S_INIT_LIT = ["x = 4", "y = -2", "z = 3", "f = 1.5", 's = "p"']
S_OBSERVE = ["mon.write(x)", "mon.write(y)", "mon.write(z)", "mon.write(f)", "mon.write(s)"]

S_TEMPLATES: List[List[str]] = [
    ["x = x + 1"],
    ["x += y"],
    ["x -= 3"],
    ["x *= 2"],
    ["y = x"],
    ["x = y - x"],
    ["x, y = y, x"],
    ["x, y = y, x + y"],
    ["x, y = x + y, x - y"],
    ["x, y = min(x, y), max(x, y)"],
    ["x, y, z = y, z, x"],
    ["x, y, z = z, x, y"],
    ["x = 5"],
    ["y = 7"],
    ["w = x * 2", "mon.write(w)"],
    ["v = x + y", "mon.write(v)", "v = v + 1", "mon.write(v)"],
    ["f = f * 2"],
    ["f += 0.25"],
    ["f = x * 0.5"],
    ["f -= y"],
    ["g = x / 4", "mon.write(g)"],
    ['s = s + "q"'],
    ['s += "r"'],
    ["s = str(x)"],
    ["mon.write(x)"],
    ['mon.write(f"{x}:{y}:{f}")'],
    ["mon.write(s)"],
    ["sleep(5)"],
    ["sleep(abs(x))"],
    ["if x > y:", "    x = y", "else:", "    y = y + 1"],
    ["if x == y:", "    z = z + 1"],
    ["if x < 0:", "    x = -x", "elif x == 0:", "    x = 1", "else:", "    x = x - 1"],
    ["for i in range(3):", "    x += 1"],
    ["for i in range(2):", "    y = y + x", "    mon.write(y)"],
    ["k = 0", "while k < 2:", "    k += 1", "    z = z * 2"],
    ["x = x if x > y else y"],
    ["z = max(x, y)"],
    ["z = min(x, y, z)"],
    ["x = abs(y)"],
    ["pin_mode(7, OUTPUT)", "digital_write(7, x > y)"],
    ["analog_write(6, abs(x) % 200)"],
    ["digital_write(8, HIGH)", "mon.write(digital_read(8))", "digital_write(8, LOW)"],
    ['a = analog_read("A0") - 10', "x = x + a"],
    ["x, u = y, x + 1", "mon.write(u)"],     # tuple assignment that binds one declared and one new name
    ["u = u + x", "mon.write(u)"],           # uses the name the previous template introduces (NameError otherwise: skipped)
]
S_CORE = [0, 1, 4, 6, 8, 10, 12, 14, 18, 21, 25, 29, 31, 32, 35, 39, 42]


def _seqs(n_symbols: Sequence[int], k: int) -> Iterator[tuple]:
    for length in range(1, k + 1):
        yield from itertools.product(n_symbols, repeat=length)


def _once_only(seq) -> bool:
    """Templates that introduce a fresh name may appear once per sequence (a second copy would be a
    plain re-assignment and is covered by the other templates)."""
    fresh = [i for i in seq if S_TEMPLATES[i][0].split(" ")[0] in ("w", "v", "g", "k", "x,")]
    return len(fresh) == len(set(fresh))


def gen_S(tier: str) -> Iterator[dict]:
    all_syms = list(range(len(S_TEMPLATES)))
    if tier == "thorough":
        spaces = [(all_syms, 2), (S_CORE + [43, 44], 3), (S_CORE[:8], 4)]
        passes_list = [0, 1, 3]
        pairs = AB_SMALL
    else:
        spaces = [(all_syms, 2), (S_CORE[:8], 3)]
        passes_list = [0, 2]
        pairs = AB_SMALL[:3]
    seen = set()
    for syms, k in spaces:
        for seq in _seqs(syms, k):
            if seq in seen or not _once_only(seq):
                continue
            seen.add(seq)
            stmts: List[List[str]] = [S_TEMPLATES[i] for i in seq]
            flat = [ln for st in stmts for ln in st]
            for mode, init in (("rt", S_INIT_RT), ("lit", S_INIT_LIT)):
                in_pairs = pairs if mode == "rt" else pairs[:1]
                # placement 1: everything in setup (no main loop)
                yield {"id": f"S:{mode}:{seq}:setup", "space": "S", "src": common.script(init + flat + S_OBSERVE),
                       "runs": _inputs(in_pairs, [0])}
                # placement 2: everything in the main loop
                yield {"id": f"S:{mode}:{seq}:loop", "space": "S", "src": common.script(init, flat + S_OBSERVE),
                       "runs": _inputs(in_pairs, [p for p in passes_list if p] or [1])}
                # placement 3: split at every cut point
                for cut in range(1, len(stmts)):
                    head = [ln for st in stmts[:cut] for ln in st]
                    tail = [ln for st in stmts[cut:] for ln in st]
                    yield {"id": f"S:{mode}:{seq}:cut{cut}", "space": "S", "src": common.script(init + head + S_OBSERVE, tail + S_OBSERVE),
                           "runs": _inputs(in_pairs[:2], passes_list)}


# ----------------------------------------------------------------------------------------------
# K — control-flow skeletons
# ----------------------------------------------------------------------------------------------
K_LEAVES = [
    ["mon.write(7)"],
    ["x += 1"],
    ["y = x"],
    ["w = x + 1"],          # first assignment of w inside the construct
    ["break"],
    ["continue"],
    ["pass"],
    ["x += 2", "mon.write(x)"],
    ["n = n - 1", "mon.write(n)"],      # the limit of an enclosing `for i in range(n)` changes inside the body
    ["n += 1"],
]
K_LOOPVAR = [["i{d} += 1", "mon.write(i{d})"], ["i{d} = 7"], ["if i{d} == 1:", "    i{d} = 5", "mon.write(i{d})"]]


def _k_blocks(depth: int, in_loop: bool, tier: str) -> Iterator[List[str]]:
    """All statement blocks of nesting depth <= depth."""
    for leaf in K_LEAVES:
        if leaf in (["break"], ["continue"]) and not in_loop:
            continue
        yield list(leaf)
    if depth <= 0:
        return
    inner_nl = list(_k_blocks(depth - 1, in_loop, tier))
    inner_l = list(_k_blocks(depth - 1, True, tier))
    if tier != "thorough" and depth >= 2:
        inner_nl = inner_nl[::3]
        inner_l = inner_l[::3]
    conds = ["x < y", "x == 2"]
    for c in conds:
        for body in inner_nl:
            yield [f"if {c}:"] + common.indent(body)
    for body in inner_nl:
        for other in (inner_nl[:3] if tier != "thorough" else inner_nl[:6]):
            yield ["if x < y:"] + common.indent(body) + ["else:"] + common.indent(other)
    for body in inner_nl[: (4 if tier != "thorough" else 8)]:
        yield ["if x < y:"] + common.indent(body) + ["elif x == y:"] + common.indent(["mon.write(8)"]) + ["else:"] + common.indent(["x -= 1"])
    # every block as a non-first arm (an arm that emits no code must still guard the arms after it)
    for body in inner_nl[: (8 if tier != "thorough" else 24)]:
        yield ["if x < y:", "    mon.write(7)", "elif x == y:"] + common.indent(body) + ["else:", "    x -= 1"]
        yield ["if x < y:", "    mon.write(7)", "elif x == y:"] + common.indent(body) + ["elif x > 5:", "    mon.write(9)", "else:", "    x -= 1"]
        yield ["if x < y:"] + common.indent(body) + ["elif x == y:", "    pass", "elif x > 5:"] + common.indent(body) + ["else:", "    mon.write(6)"]
    # an enclosing loop / try whose body first-assigns a variable (so its nodes are rebuilt when the declaration is
    # lifted) followed by an inner loop whose limit or loop variable is re-bound in its body
    if depth >= 2:
        inner_special = [
            [f"for i{depth - 1} in range(n):", "    n = n - 1", f"    mon.write(i{depth - 1})"],
            [f"for i{depth - 1} in range(3):", f"    mon.write(i{depth - 1})", f"    i{depth - 1} += 1"],
            [f"for i{depth - 1} in range(abs(y) % 3 + 1):", "    y = y + 1", "    x += 1"],
            [f"k{depth - 1} = 0", f"while k{depth - 1} < n:", f"    k{depth - 1} += 1", "    n = n - 1"],
        ]
        for inner in inner_special:
            yield [f"for i{depth} in range(2):", "    w = x + 1"] + common.indent(inner)
            yield [f"k{depth} = 0", f"while k{depth} < 2:", f"    k{depth} += 1", "    w = x + 1"] + common.indent(inner)
            yield ["if x < y or x >= y:", "    w = x + 1"] + common.indent(inner)
            yield [f"for i{depth} in range(2):"] + common.indent(inner) + ["    w = x + 1"]
    # a variable first assigned in a branch inside a loop keeps its value over the following iterations
    if depth >= 1:
        yield [f"for i{depth} in range(3):", f"    if i{depth} == 0:", "        w = x + 1", "    mon.write(w)"]
        yield [f"for i{depth} in range(3):", f"    if i{depth} == 0:", "        w = x + 1", f"    elif i{depth} == 1:", "        w = w + 10", "    mon.write(w)"]
        yield [f"k{depth} = 0", f"while k{depth} < 3:", f"    k{depth} += 1", f"    if k{depth} == 1:", "        w = y", "    mon.write(w)", "    w = w + 1"]
        yield [f"for i{depth} in range(2):", f"    for j{depth} in range(2):", f"        if j{depth} == 0 and i{depth} == 0:", "            w = 7", "        mon.write(w)", "        w += 1"]
        yield [f"for i{depth} in range(3):", "    try:", f"        if i{depth} == 0:", "            w = x", "    except:", "        pass", "    mon.write(w)"]
        yield [f"for i{depth} in range(3):", f"    if i{depth} >= 0:", f"        if i{depth} == 0:", "            w = 7", "        mon.write(w)"]
        yield [f"k{depth} = 0", f"while k{depth} < 3:", f"    k{depth} += 1", f"    if k{depth} > 0:", f"        for j{depth} in range(2):", f"            if j{depth} + k{depth} == 1:", "                w = y", "    mon.write(w)"]
    # a variable first bound INSIDE a block to the default value of its type (0, 0.0, False, "") and changed afterwards:
    # the binding is executed again every time the block is entered
    if depth >= 1:
        for v, zero, grow in (("w", "0", "w = w + x + 1"), ("wf", "0.0", "wf = wf + 0.5"), ("wb", "False", "wb = wb or x > -99"), ("ws", '""', 'ws = ws + "p"')):
            yield [f"for i{depth} in range(3):", f"    {v} = {zero}", f"    {grow}", f"    mon.write({v})"]
            yield [f"k{depth} = 0", f"while k{depth} < 3:", f"    k{depth} += 1", f"    {v} = {zero}", f"    for j{depth} in range(k{depth}):", f"        {grow}", f"    mon.write({v})"]
            yield ["if x < y or x >= y:", f"    {v} = {zero}", f"    {grow}", f"    mon.write({v})"]
            yield [f"for i{depth} in range(2):", "    try:", f"        {v} = {zero}", f"        {grow}", "    except:", "        pass", f"    mon.write({v})"]
    # the loop variable is a variable that already exists: it is assigned by the loop and keeps its last value afterwards
    # (its old value when the range is empty); the limit may mention it
    if depth >= 1:
        yield ["for x in range(3):", "    y = y + x"]
        yield ["for n in range(n):", "    x += 1", "mon.write(n)"]
        yield ["for x in range(abs(y) % 3):", "    mon.write(x)"]
        yield ["for y in range(2):", "    for x in range(y + 1):", "        mon.write(x + y)"]
        yield [f"for i{depth} in range(2):", "    for x in range(2):", f"        y = y + x + i{depth}", "    mon.write(x)"]
    for tmpl in K_LOOPVAR:
        lv = [ln.replace("{d}", str(depth)) for ln in tmpl]
        yield [f"for i{depth} in range(3):"] + common.indent(lv + [f"mon.write(i{depth})"])
        yield [f"for i{depth} in range(n):"] + common.indent(["x += 1"] + lv)
    for body in inner_l:
        yield [f"for i{depth} in range(3):"] + common.indent(body + [f"mon.write(i{depth})"])
        yield [f"for i{depth} in range(n):"] + common.indent(body)
        yield [f"k{depth} = 0", f"while k{depth} < 3:"] + common.indent([f"k{depth} += 1"] + body)


K_INIT = INIT_AB + ["x = a", "y = b", "n = abs(a) % 4"]
K_OBSERVE = ["mon.write(x)", "mon.write(y)"]


def gen_K(tier: str) -> Iterator[dict]:
    depth = 2
    blocks = list(_k_blocks(depth, False, tier))
    if tier == "thorough":
        blocks += [b for b in _k_blocks(3, False, "quick")][::5]
    pairs = AB_SMALL if tier == "thorough" else AB_SMALL[:3]
    for idx, block in enumerate(blocks):
        uses_w = any("w = " in ln for ln in block)
        observe = K_OBSERVE + (["mon.write(w)"] if uses_w else [])
        yield {"id": f"K:{idx}:setup", "space": "K", "src": common.script(K_INIT + block + observe), "runs": _inputs(pairs, [0])}
        yield {"id": f"K:{idx}:loop", "space": "K", "src": common.script(K_INIT, block + observe), "runs": _inputs(pairs[:2], [2])}


# ----------------------------------------------------------------------------------------------
# F — helper functions
# ----------------------------------------------------------------------------------------------
F_DEFS = {
    "inc": ["def inc(v):", "    return v + 1"],
    "lastk": ["def lastk(k):", "    for k in range(2):", "        mon.write(k)", "    return k"],
    "add": ["def add(p, q):", "    return p + q"],
    "pick": ["def pick(p, q):", "    if p > q:", "        return p", "    return q"],
    "loop3": ["def loop3(v):", "    t = 0", "    for i in range(3):", "        t = t + v", "    return t"],
    "show": ["def show(v):", "    mon.write(v)"],
    "twice": ["def twice(v):", "    return inc(inc(v))"],
    "cnt": ["def cnt():", "    return 4"],
    "early": ["def early(v):", "    if v < 0:", "        return 0", "    mon.write(v)", "    return v * 2"],
    "bump": ["def bump():", "    global x", "    x = x + 1"],
    "docfn": ["def docfn(v):", '    """Report the value', '    on the serial line."""', "    mon.write(v)", "    return v + 1"],
    "docfn2": ["def docfn2(v):", "    \'\'\'one", "    two", "    three\'\'\'", "    v = v * 2", "    return v"],
    "shadow": ["def shadow(v):", "    x = v + 1", "    y = x * 2", "    return y"],
    "shadow_tuple": ["def shadow_tuple(v):", "    x, y = v - 1, v + 1", "    return x * y"],
    "shadow_for": ["def shadow_for(v):", "    t = 0", "    for x in range(3):", "        t = t + x * v", "    y, t = t, 0", "    return y"],
    "mixret": ["def mixret(v):", "    if v < 0:", "        return 0", "    return (10 - v) / 8"],
    "mixret3": ["def mixret3(v):", "    if v < 0:", "        return 0", "    elif v == 0:", "        return True", "    return v / 4"],
    "shadow_loop": ["def shadow_loop(v):", "    x = 0", "    for y in range(3):", "        x += v", "    return x"],
    "setg": ["def setg():", "    global g", "    g = 120"],
    "noisy": ["def noisy(v):", "    mon.write(v)", "    return v + 1"],
    "bump2": ["def bump2():", "    global x, y", "    x = x + 1", "    y = y + 2"],
    "bump3": ["def bump3(v):", "    global y, x", "    x = v", "    y = v + 1", "    return x + y"],
    "bump4": ["def bump4():", "    global x", "    global y", "    y = x", "    x = 0"],
    "skip": ["def skip(v):", "    t = 0", "    for i in range(4):", "        if i == v:", "            continue", "        t = t + i", "    return t"],
}
F_CALLS = [
    (["inc"], ["x = inc(x)"]),
    (["inc"], ["mon.write(inc(a))"]),
    (["inc"], ["mon.write(inc(inc(a)))"]),
    (["inc"], ["y = inc(a) + inc(b)"]),
    (["add"], ["x = add(a, b)"]),
    (["add"], ["mon.write(add(a, 2))"]),
    (["add", "inc"], ["x = add(inc(a), b)"]),
    (["pick"], ["x = pick(a, b)"]),
    (["pick"], ["mon.write(pick(b, a))"]),
    (["loop3"], ["x = loop3(a)"]),
    (["show"], ["show(a)"]),
    (["show"], ["show(a + b)", "show(x)"]),
    (["inc", "twice"], ["x = twice(a)"]),
    (["cnt"], ["x = cnt()"]),
    (["cnt"], ["mon.write(cnt() + a)"]),
    (["early"], ["x = early(a)"]),
    (["early"], ["mon.write(early(b))"]),
    (["inc"], ["mon.write(max(inc(a), b))"]),
    (["inc", "add"], ["if inc(a) > b:", "    x = add(a, b)"]),
    (["bump"], ["bump()", "bump()"]),
    (["shadow"], ["mon.write(shadow(a))", "mon.write(x)", "mon.write(y)"]),
    (["shadow_tuple"], ["mon.write(shadow_tuple(a))", "mon.write(x)", "mon.write(y)"]),
    (["shadow_for"], ["mon.write(shadow_for(b))", "mon.write(x + y)"]),
    (["mixret"], ["mon.write(mixret(a))", "x = int(mixret(b) * 10)"]),
    (["mixret3"], ["mon.write(mixret3(a) + mixret3(b))", "if mixret3(a) > 0.3:", "    y = 1"]),
    (["shadow_loop"], ["x = x + shadow_loop(b)"]),
    (["shadow", "bump"], ["bump()", "mon.write(shadow(x))", "bump()"]),
    (["docfn"], ["x = docfn(a)"]),
    (["docfn2"], ["mon.write(docfn2(b))"]),
    (["setg"], ["setg()", "g = 200", "mon.write(g)"]),          # the helper assigns the global before its first top-level assignment
    (["setg"], ["setg()", "g, g2 = 200, 3", "mon.write(g)"]),
    (["setg"], ["g = 200", "setg()", "mon.write(g)", "g = 7", "mon.write(g)"]),
    (["noisy"], ["mon.write(max(noisy(a), 3))"]),
    (["noisy"], ["x = min(noisy(b), noisy(a))"]),
    (["noisy"], ["y = abs(noisy(a)) + max(noisy(b), noisy(a), 2)"]),
    (["noisy"], ["if noisy(a) > noisy(b):", "    x = 0"]),
    (["noisy"], ["x = noisy(a) if noisy(b) > 0 else noisy(0)"]),
    (["noisy"], ["mon.write(noisy(a) + noisy(b) * noisy(2))"]),
    (["noisy"], ["for i in range(noisy(1)):", "    x += 1"]),
    (["noisy"], ["k = 0", "while k < noisy(1):", "    k += 1"]),
    (["noisy"], ["sleep(noisy(3))"]),
    (["noisy", "add"], ["x = add(noisy(a), noisy(b))"]),
    # chained comparisons: each operand evaluated at most once, and not at all after a link that is false
    (["noisy"], ["if noisy(a) < noisy(b) < noisy(2):", "    x = 0"]),
    (["noisy"], ["x = 5 < noisy(1) < noisy(9)"]),
    (["noisy"], ["mon.write(noisy(a) < noisy(b) <= noisy(a) < noisy(7))"]),
    (["noisy"], ["y = 0 < noisy(a) < noisy(b)", "x = noisy(b) > noisy(a) > noisy(-9) > noisy(-8)"]),
    (["noisy"], ["k = 0", "while 0 < noisy(k) < 3:", "    k += 1"]),
    # and / or: the right operand only when the left one does not decide
    (["noisy"], ["x = noisy(a) and noisy(b)"]),
    (["noisy"], ["x = noisy(a) or noisy(b)"]),
    (["noisy"], ["if a > 0 and noisy(1) > 0 or noisy(2) > 5:", "    x = 1"]),
    (["noisy"], ["x = (noisy(a) or noisy(7)) + (noisy(b) and noisy(8))"]),
    # expression statements whose only effect sits deep inside them
    (["noisy"], ["x > 2 and (y > 2 or noisy(1))"]),
    (["noisy"], ["a > 3 and not noisy(a)"]),
    (["noisy"], ["(noisy(3) + 1) * 2"]),
    (["noisy"], ["x > 1 and noisy(x) > 0"]),
    (["noisy"], ["noisy(1)", "-noisy(2)", "noisy(3) if a > 0 else noisy(4)"]),
    (["noisy"], ["abs(min(noisy(5), 2))", "not (noisy(6) > 3)"]),
    (["noisy", "add"], ["add(1, add(noisy(a), 2))", "add(noisy(1), noisy(2)) > 2 or noisy(9)"]),
    (["lastk"], ["mon.write(lastk(9))", "mon.write(lastk(a))"]),
    (["bump2"], ["bump2()", "mon.write(x)", "bump2()"]),
    (["bump3"], ["mon.write(bump3(a))"]),
    (["bump4", "bump2"], ["bump4()", "bump2()"]),
    (["skip"], ["x = skip(abs(a) % 4)"]),
    (["skip", "inc"], ["mon.write(skip(inc(0)))"]),
]


def gen_F(tier: str) -> Iterator[dict]:
    pairs = AB_SMALL if tier == "thorough" else AB_SMALL[:3]
    init = INIT_AB + ["x = a", "y = b"]
    obs = ["mon.write(x)", "mon.write(y)"]
    singles = list(enumerate(F_CALLS))
    for i, (names, stmts) in singles:
        defs = [ln for n in names for ln in F_DEFS[n]]
        yield {"id": f"F:{i}:setup", "space": "F", "src": common.script(init + stmts + obs, defs=defs), "runs": _inputs(pairs, [0])}
        yield {"id": f"F:{i}:loop", "space": "F", "src": common.script(init, stmts + obs, defs=defs), "runs": _inputs(pairs[:2], [2])}
        # the helpers are defined AFTER the sketch variables exist (names they bind locally collide with declared globals)
        yield {"id": f"F:{i}:latedef", "space": "F", "src": common.script(init + defs + stmts + obs, stmts + obs), "runs": _inputs(pairs[:2], [0, 2])}
    # pairs of call sites (two statements, possibly sharing helpers)
    for (i, (n1, s1)), (j, (n2, s2)) in itertools.product(singles, repeat=2):
        if tier != "thorough" and (i + j) % 3:
            continue
        names = list(dict.fromkeys(n1 + n2))
        defs = [ln for n in names for ln in F_DEFS[n]]
        yield {"id": f"F:{i}+{j}", "space": "F", "src": common.script(init + s1 + obs, s2 + obs, defs=defs), "runs": _inputs(pairs[:2], [0, 2])}


# ----------------------------------------------------------------------------------------------
# L — lists
# ----------------------------------------------------------------------------------------------
L_INITS = [
    (["L = [1, 2, 3]"], True),
    (["L = [2, 2, 5, 2]"], True),
    (["L = [i for i in range(4)]"], True),
    (["L = [i * 2 for i in range(3)]"], True),
    (["L = [a, b, 2, 2]"], False),
    (["L = [a + 1, 2, a + 1]"], False),
]
L_OPS = [
    ["L.append(7)"],
    ["L.append(x)"],
    ["L.remove(2)"],
    ["mon.write(L[0])"],
    ["mon.write(L[-1])"],
    ["mon.write(L[1] * 2)"],
    ["x = L[0] + L[-1]"],
    ["mon.write(len(L))"],
    ["y = len(L)"],
]
L_DUMP = ["for i in range(len(L)):", "    mon.write(L[i])"]


def gen_L(tier: str) -> Iterator[dict]:
    pairs = AB_SMALL[:3]
    init = INIT_AB + ["x = a", "y = b"]
    obs = ["mon.write(x)", "mon.write(y)"] + L_DUMP
    k = 3 if tier == "thorough" else 2
    for li, (linit, literal) in enumerate(L_INITS):
        for seq in _seqs(range(len(L_OPS)), k):
            ops = [ln for i in seq for ln in L_OPS[i]]
            yield {"id": f"L:{li}:{seq}:setup", "space": "L", "src": common.script(init + linit + ops + obs), "runs": _inputs(pairs, [0])}
            if not literal:
                # literal-initialised lists mutated inside loop() hit the stale folded len() (C03 finding)
                yield {"id": f"L:{li}:{seq}:loop", "space": "L", "src": common.script(init + linit, ops + obs), "runs": _inputs(pairs[:2], [2])}
            else:
                reads = [ln for i in seq if i in (3, 4, 5, 6) for ln in L_OPS[i]]
                if reads:
                    yield {"id": f"L:{li}:{seq}:loopread", "space": "L", "src": common.script(init + linit, reads + ["mon.write(x)"]), "runs": _inputs(pairs[:1], [2])}


L_MUT = [["L.append(7)"], ["L.append(x)"], ["L.remove(2)"], ["L.append(7)", "L.append(8)"]]
L_READ = [["mon.write(len(L))"], ["mon.write(L[-1])"], ["y = len(L) + L[0]"], ["for i in range(len(L)):", "    mon.write(L[i])"]]


def gen_LB(tier: str) -> Iterator[dict]:
    """Lists mutated in one arm / loop body and read in a sibling arm, after the construct and in the next pass."""
    pairs = AB_SMALL[:4]
    init = INIT_AB + ["x = a", "y = b"]
    obs = ["mon.write(x)", "mon.write(y)"] + L_DUMP
    for li, (linit, _literal) in enumerate(L_INITS):
        for (mi, m), (ri, r) in itertools.product(enumerate(L_MUT), enumerate(L_READ)):
            shapes = {
                "sibling": ["if x > y:"] + common.indent(m) + ["elif x == y:"] + common.indent(r) + ["else:"] + common.indent(r),
                "sibling_rev": ["if x > y:"] + common.indent(r) + ["elif x == y:"] + common.indent(r) + ["else:"] + common.indent(m),
                "after_if": ["if x > y:"] + common.indent(m) + r,
                "after_for": ["for i in range(abs(x) % 3):"] + common.indent(m) + r,
                "try": ["try:"] + common.indent(m) + ["except:"] + common.indent(r) + r,
                "nested": ["for j in range(2):", "    if j == 1:"] + common.indent(m, 2) + ["    else:"] + common.indent(r, 2),
            }
            for sname, body in shapes.items():
                if sname == "try" and any("remove" in ln for ln in m):
                    continue  # an exception raised and caught at run time is outside the subset of C01 (the firmware has none)
                yield {"id": f"LB:{li}:{mi}:{ri}:{sname}:setup", "space": "LB", "src": common.script(init + linit + body + obs), "runs": _inputs(pairs, [0])}
                if li in (0, 4) or tier == "thorough":
                    yield {"id": f"LB:{li}:{mi}:{ri}:{sname}:loop", "space": "LB", "src": common.script(init + linit, body + ["mon.write(len(L))"]), "runs": _inputs(pairs[:2], [2])}


SPACES = {"E": gen_E, "S": gen_S, "K": gen_K, "F": gen_F, "L": gen_L, "LB": gen_LB, "B": gen_B}


def judge(case, tr, dev_runs, host_runs):
    from rmc.pipeline import default_judge

    return default_judge(case, tr, dev_runs, host_runs, check_lcd=False)


def generate(tier: str, only=None) -> Iterator[dict]:
    for name, fn in SPACES.items():
        if only and name not in only:
            continue
        yield from fn(tier)


def main(tier: str, seed: int, only=None) -> int:
    report = Report(ID, LEVEL, tier, seed)
    report.bounds = {
        "E": "expression trees of depth <= 2 over leaves a,b,2,-3,1.5 (one nested operand), run for (a,b) in {-7,-1,0,2,9}^2 (thorough) / every other pair (quick), plus literal-folded copies",
        "S": "statement sequences k<=2 over all templates and k<=3 over an 8-symbol core (quick) / k<=3 over a 19-symbol core, k<=4 over an 8-symbol core (thorough); placements setup / loop / every cut; passes 0..3",
        "K": "control-flow nestings of depth <= 2 (thorough adds a slice of depth 3) with first assignments / break / prints at every position",
        "F": "19 call patterns over 8 helpers, singles and ordered pairs of call sites",
        "L": "list init x op sequences k<=2 (quick) / 3 (thorough)",
    }
    cases = generate(tier, only)
    poisoned: List[dict] = []

    def note(rec):
        # a pack of expressions that does not compile (or is rejected) as a whole is re-run one by one
        if rec["outcome"] in ("nocompile", "reject") and rec.get("case", {}).get("exprs"):
            poisoned.append(rec["case"])

    common.drive(report, MOD, cases, opts={"host_timeout": 5.0, "keep_case_on": ("nocompile", "reject")}, batch_size=40, on_record=note)
    singles = []
    for case in poisoned:
        head = INIT_AB if case["space"] == "E" else []
        for j, e in enumerate(case["exprs"]):
            singles.append({"id": f"{case['id']}/{j}", "space": case["space"], "src": common.script(list(head) + [f"mon.write({e})"]), "runs": case["runs"]})
    if singles:
        common.drive(report, MOD, singles, opts={"host_timeout": 5.0}, batch_size=40, include_witnesses=False)
    for name in SPACES:
        pass
    report.add_sample({"space": "S", "script": common.script(S_INIT_RT + S_TEMPLATES[6] + S_TEMPLATES[29] + S_OBSERVE).splitlines()[6:]})
    report.add_sample({"space": "E", "exprs": expressions(tier)[:5]})
    report.add_sample({"space": "K", "block": next(iter(_k_blocks(2, False, tier)))})
    return report.finish(
        rule="every program of the bounded sub-spaces E,S,K,F,L is transpiled, compiled, run on the mock core for every input vector/pass count and compared with CPython; distinct = distinct emitted firmware texts",
        assumptions=evidence.COMMON_ASSUMPTIONS + ["serial values are compared as numbers (two-decimal float printing tolerance 0.005)"],
    )


def replay(path: str) -> int:
    return common.replay_program(ID, MOD, path)
