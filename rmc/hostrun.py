"""CPython reference executor.

Runs the *same script text* that is given to the transpiler with CPython against the host-side
``Reduino.*`` modules of the working tree.  The environment (sleep, serial monitor, sensors, Core
inputs, the `while True:` pass counter) is virtual and driven by the same input script as the mock
Arduino core.  Host device state is read through public getters only.
"""
from __future__ import annotations

import ast
import contextlib
import importlib
import io
import signal
import sys
from dataclasses import dataclass, field
from typing import Any, Dict, List, Optional, Tuple


class HostTimeout(Exception):
    pass


class _StopScript(BaseException):
    """Raised to leave the script once the requested number of passes has run."""


def _pin_number(pin) -> Any:
    if isinstance(pin, bool):
        return int(pin)
    if isinstance(pin, int):
        return pin
    text = str(pin).strip()
    if len(text) >= 2 and text[0] == "A" and text[1:].isdigit():
        return 14 + int(text[1:])
    if text.isdigit():
        return int(text)
    return text


@dataclass
class HostRun:
    events: List[tuple] = field(default_factory=list)
    error: Optional[str] = None
    error_type: Optional[str] = None
    completed: bool = False
    passes_run: int = 0
    final_vars: Dict[str, Any] = field(default_factory=dict)


class Runtime:
    """Virtual environment for one host execution."""

    def __init__(self, run: dict):
        self.run = run
        self.passes = int(run.get("passes", 0))
        self.clock = float(run.get("t0", 0))
        self.events: List[tuple] = []
        self.pass_i = 0
        self.in_pass = -1
        self.devices: List[Tuple[str, Any]] = []
        self.core_latch: Dict[Any, int] = {}
        self.core_modes: Dict[Any, str] = {}
        self.dr_pos: Dict[Any, int] = {}
        self.ar_pos: Dict[Any, int] = {}
        self.pulse_pos = 0
        self.dr = {_pin_number(k): list(v) for k, v in (run.get("dr") or {}).items()}
        self.ar = {_pin_number(k): list(v) for k, v in (run.get("ar") or {}).items()}
        self.pulse = list(run.get("pulse") or [])
        self.adv = list(run.get("adv") or [])
        self.button_samples: Dict[Any, int] = {}
        self.has_main_loop = False

    # -- inputs -------------------------------------------------------------------------
    def _next(self, table, pos, pin, default=None):
        seq = table.get(pin)
        if not seq:
            return default
        i = pos.get(pin, 0)
        value = seq[i if i < len(seq) else len(seq) - 1]
        if i < len(seq):
            pos[pin] = i + 1
        return value

    def digital_sample(self, pin):
        return self._next(self.dr, self.dr_pos, _pin_number(pin))

    def analog_sample(self, pin):
        key = _pin_number(pin)
        value = self._next(self.ar, self.ar_pos, key)
        if value is None and isinstance(key, int) and key < 14:
            value = self._next(self.ar, self.ar_pos, key + 14)
        return value

    def pulse_sample(self) -> int:
        if not self.pulse:
            return 0
        i = self.pulse_pos
        value = self.pulse[i if i < len(self.pulse) else len(self.pulse) - 1]
        if i < len(self.pulse):
            self.pulse_pos = i + 1
        return int(value)

    # -- observation --------------------------------------------------------------------
    def snapshot(self) -> Dict[Any, Any]:
        snap: Dict[Any, Any] = {}
        for pin, value in self.core_latch.items():
            snap[("pin", pin)] = value
        for kind, dev in self.devices:
            if kind == "led":
                snap[("pin", _pin_number(dev.pin))] = int(dev.get_brightness())
                snap[("ledstate", _pin_number(dev.pin))] = bool(dev.get_state())
            elif kind == "rgb":
                for pin, level in zip(dev.pins, dev.get_color()):
                    snap[("pin", _pin_number(pin))] = int(level)
            elif kind == "servo":
                snap[("servo", _pin_number(dev.pin))] = (float(dev.read()), float(dev.read_us()))
            elif kind == "motor":
                in1, in2, en = dev.pins
                applied = float(dev.get_applied_speed())
                mode = dev.get_mode()
                snap[("motor", in1, in2, en)] = (applied, mode)
            elif kind == "lcd":
                snap[("lcd", dev._redu_index)] = dev.dump()
                if dev.glyphs:
                    snap[("glyphs", dev._redu_index)] = {int(k): tuple(v) for k, v in dev.glyphs.items()}
                if dev.is_i2c:
                    snap[("lcdbl", dev._redu_index)] = bool(dev.backlight_on)
                if getattr(dev, "backlight_pin", None) is not None:
                    level = int(dev.brightness_level) if dev.backlight_on else 0
                    snap[("pin", _pin_number(dev.backlight_pin))] = level
        return snap

    def emit(self, kind: str, *payload) -> None:
        self.events.append((kind, self.in_pass, round(self.clock, 6), payload, self.snapshot()))

    def on_sleep_seconds(self, seconds: float) -> None:
        ms = seconds * 1000.0
        self.emit("delay", round(ms, 6))
        self.clock += ms

    def next_pass(self) -> bool:
        self.emit("endpass", self.in_pass)
        if self.pass_i >= self.passes:
            raise _StopScript()
        i = self.pass_i
        self.pass_i += 1
        if i < len(self.adv):
            self.clock += float(self.adv[i])
        self.in_pass = i
        self.button_samples = {}
        self.emit("mark", i)
        for kind, dev in self.devices:
            if kind == "lcd" and dev.animations:
                dev.tick(int(self.clock) if self.clock else 0)
        return True


CURRENT: Optional[Runtime] = None
_PATCHED = False
_REAL: Dict[str, Any] = {}


def _rt() -> Runtime:
    if CURRENT is None:
        raise RuntimeError("no host runtime active")
    return CURRENT


def _install_patches() -> None:
    """Replace the environment-facing names of the Reduino package by traced versions (once per
    process).  The traced classes *subclass the real ones of the working tree*."""
    global _PATCHED
    if _PATCHED:
        return
    import Reduino
    import Reduino.Actuators as A
    import Reduino.Communication as C
    import Reduino.Core as K
    import Reduino.Displays as D
    import Reduino.Sensors as S
    import Reduino.Utils as U

    real_sleep = U.sleep
    _REAL["sleep"] = real_sleep

    def traced_sleep(duration, *, sleep_func=None):
        return real_sleep(duration, sleep_func=lambda seconds: _rt().on_sleep_seconds(seconds))

    U.sleep = traced_sleep
    A.sleep = traced_sleep

    def fake_target(*args, **kwargs):
        return ""

    Reduino.target = fake_target

    class TLed(A.Led):
        def __init__(self, *a, **k):
            super().__init__(*a, **k)
            _rt().devices.append(("led", self))

    class TRGB(A.RGBLed):
        def __init__(self, *a, **k):
            super().__init__(*a, **k)
            _rt().devices.append(("rgb", self))

    class TServo(A.Servo):
        def __init__(self, *a, **k):
            super().__init__(*a, **k)
            _rt().devices.append(("servo", self))

    class TMotor(A.DCMotor):
        def __init__(self, *a, **k):
            super().__init__(*a, **k)
            _rt().devices.append(("motor", self))

    class TBuzzer(A.Buzzer):
        def __init__(self, *a, **k):
            super().__init__(*a, **k)
            _rt().devices.append(("buzzer", self))

    A.Led, A.RGBLed, A.Servo, A.DCMotor, A.Buzzer = TLed, TRGB, TServo, TMotor, TBuzzer

    class TLCD(D.LCD):
        def __init__(self, *a, **k):
            super().__init__(*a, **k)
            rt = _rt()
            self._redu_index = sum(1 for kind, _ in rt.devices if kind == "lcd")
            rt.devices.append(("lcd", self))

    D.LCD = TLCD

    class TSerial(C.SerialMonitor):
        def write(self, value=""):
            _rt().emit("serial", value)
            return super().write(value)

    C.SerialMonitor = TSerial

    class TButton(S.Button):
        def __init__(self, pin, on_click=None, state_provider=None):
            rt = _rt()
            if state_provider is None:
                def state_provider(pin=pin):
                    cur = _rt()
                    # The firmware samples a button once in setup() and once per loop() pass; every
                    # is_pressed() of a pass sees that pass's sample: sample k+1 belongs to pass k.
                    seq = cur.dr.get(_pin_number(pin)) or [0]
                    idx = cur.in_pass + 1
                    return bool(seq[idx if idx < len(seq) else len(seq) - 1])
            super().__init__(pin, on_click=on_click, state_provider=state_provider)
            rt.devices.append(("button", self))

    class TPot(S.Potentiometer):
        def __init__(self, pin="A0", value_provider=None):
            if value_provider is None:
                def value_provider(pin=pin):
                    value = _rt().analog_sample(pin)
                    return 0 if value is None else value
            super().__init__(pin, value_provider=value_provider)
            _rt().devices.append(("pot", self))

    real_ultrasonic = S.Ultrasonic

    def TUltrasonic(trig, echo, *a, **k):
        if k.get("distance_provider") is None:
            def provider():
                return _rt().pulse_sample() * 0.0343 / 2.0
            k["distance_provider"] = provider
        dev = real_ultrasonic(trig, echo, *a, **k)
        _rt().devices.append(("ultrasonic", dev))
        return dev

    S.Button, S.Potentiometer, S.Ultrasonic = TButton, TPot, TUltrasonic

    real_dr, real_ar = K.digital_read, K.analog_read
    real_dw, real_aw, real_pm = K.digital_write, K.analog_write, K.pin_mode

    def digital_read(pin):
        value = _rt().digital_sample(pin)
        if value is not None:
            return 1 if value else 0
        return real_dr(pin)

    def analog_read(pin):
        value = _rt().analog_sample(pin)
        if value is not None:
            return int(value)
        return real_ar(pin)

    def digital_write(pin, value):
        real_dw(pin, value)
        _rt().core_latch[_pin_number(pin)] = 255 if real_dr(pin) else 0

    def analog_write(pin, value):
        real_aw(pin, value)
        _rt().core_latch[_pin_number(pin)] = real_ar(pin)

    def pin_mode(pin, mode):
        real_pm(pin, mode)
        _rt().core_modes[_pin_number(pin)] = mode

    K.digital_read, K.analog_read = digital_read, analog_read
    K.digital_write, K.analog_write, K.pin_mode = digital_write, analog_write, pin_mode
    _REAL["core_reset"] = (K, real_dr, real_ar, real_dw, real_aw, real_pm)
    _PATCHED = True


def _reset_core() -> None:
    """Fresh Core pin memory for every run: re-execute the module body the way a new process would
    (public mechanism only), then put the traced entry points back."""
    import Reduino.Core as K

    names = ("digital_read", "analog_read", "digital_write", "analog_write", "pin_mode")
    saved = {name: getattr(K, name) for name in names}
    importlib.reload(K)
    for name, value in saved.items():
        setattr(K, name, value)


class _LoopRewriter(ast.NodeTransformer):
    def __init__(self):
        self.count = 0

    def visit_Module(self, node: ast.Module):
        new_body = []
        for stmt in node.body:
            if (
                isinstance(stmt, ast.While)
                and isinstance(stmt.test, ast.Constant)
                and stmt.test.value is True
            ):
                self.count += 1
                stmt.test = ast.Call(
                    func=ast.Attribute(value=ast.Name(id="__redu_rt", ctx=ast.Load()), attr="next_pass", ctx=ast.Load()),
                    args=[],
                    keywords=[],
                )
            new_body.append(stmt)
        node.body = new_body
        return node


def _alarm(signum, frame):  # pragma: no cover
    raise HostTimeout()


def run_host(src: str, run: dict, *, timeout_s: float = 5.0, keep_vars: bool = False) -> HostRun:
    """Execute ``src`` with CPython under the virtual environment described by ``run``."""
    global CURRENT
    _install_patches()
    _reset_core()
    result = HostRun()
    try:
        tree = ast.parse(src)
    except SyntaxError as exc:
        result.error = str(exc)
        result.error_type = "SyntaxError"
        return result
    rewriter = _LoopRewriter()
    tree = rewriter.visit(tree)
    ast.fix_missing_locations(tree)
    rt = Runtime(run)
    rt.has_main_loop = rewriter.count > 0
    CURRENT = rt
    namespace: Dict[str, Any] = {"__name__": "__main__", "__redu_rt": rt}
    old = signal.signal(signal.SIGALRM, _alarm)
    old_prof = signal.signal(signal.SIGPROF, _alarm)
    signal.setitimer(signal.ITIMER_PROF, timeout_s)       # CPU time of the script
    signal.setitimer(signal.ITIMER_REAL, timeout_s * 20)  # wall clock: distant backstop
    try:
        code = compile(tree, "<script>", "exec")
        with contextlib.redirect_stdout(io.StringIO()):
            try:
                exec(code, namespace)  # noqa: S102 - this IS the reference interpreter
            except _StopScript:
                pass
        if not rt.has_main_loop:
            # firmware still calls loop() N times; nothing of the script runs there
            for i in range(rt.passes):
                try:
                    rt.next_pass()
                except _StopScript:
                    break
            rt.emit("endpass", rt.in_pass)
        result.completed = True
    except HostTimeout:
        result.error = "timeout"
        result.error_type = "HostTimeout"
    except RecursionError as exc:
        result.error = str(exc)[:200]
        result.error_type = "RecursionError"
    except Exception as exc:  # noqa: BLE001 - script-level error: the script is not well defined
        result.error = f"{exc}"[:200]
        result.error_type = type(exc).__name__
    finally:
        signal.setitimer(signal.ITIMER_PROF, 0)
        signal.setitimer(signal.ITIMER_REAL, 0)
        signal.signal(signal.SIGALRM, old)
        signal.signal(signal.SIGPROF, old_prof)
        CURRENT = None
    result.events = rt.events
    result.passes_run = rt.pass_i
    if keep_vars:
        result.final_vars = {
            k: v for k, v in namespace.items() if not k.startswith("__") and isinstance(v, (bool, int, float, str, list))
        }
    return result
