#!/venv/bin/python
"""usage: tools/probe.py <script file | -> [passes] : transpile, compile, run, compare with CPython (triage aid)."""
import json, sys
sys.path.insert(0, "/verif"); sys.path.insert(0, __import__("os").environ.get("REDUINO_SRC") or "/repo/src")
from rmc import device, hostrun, observe
src = sys.stdin.read() if sys.argv[1] == "-" else open(sys.argv[1]).read()
passes = int(sys.argv[2]) if len(sys.argv) > 2 else 2
run = {"passes": passes, "ar": {"A0": [4, 5, 6], "A1": [7, 8]}, "dr": {7: [0, 1, 1, 0]}, "pulse": [583, 0, 0, 0]}
tr = device.transpile(src)
print("transpile:", tr.status, tr.error)
if tr.status == "ok":
    if "-v" in sys.argv: print(tr.cpp)
    b = device.build_batch([tr.cpp], sanitize="-san" in sys.argv)
    print("compile errors:", b.compile_errors)
    if b.binary:
        dr = device.run_program(b, 0, [run])[0]
        print("device ok:", dr.ok, dr.faults, dr.sanitizer)
        hr = hostrun.run_host(src, run)
        print("host error:", hr.error_type, hr.error)
        if hr.error is None:
            print("diff:", observe.compare(observe.reduce_host(hr.events), observe.reduce_device(dr)))
        if "-e" in sys.argv:
            for e in dr.events: print(e)
    b.cleanup()
