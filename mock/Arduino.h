// Mock Arduino core for the Reduino verification harness (/verif).
// Header-only, C headers only (fast to compile, and no STL header is hurt by the
// min/max/abs macros below).  It mirrors the Arduino API where a difference is
// observable to the generated sketches:
//   * min/max/abs/round are the double-evaluating MACROS of Arduino.h
//   * Print::print(float) uses two decimals with Arduino's printFloat algorithm
//   * String(float) uses two decimals (dtostrf)
//   * bool has no Print/String overload of its own (promotes to int, prints 1/0)
// Every observable effect is logged as one line `E <t_ms> <kind> <args...>`.
#ifndef REDU_MOCK_ARDUINO_H
#define REDU_MOCK_ARDUINO_H

#include <math.h>
#include <signal.h>
#include <stdarg.h>
#include <stddef.h>
#include <stdint.h>
#include <stdio.h>
#include <stdlib.h>
#include <string.h>
#include <unistd.h>
#include <new>

// ---------------------------------------------------------------------------
// constants / types
// ---------------------------------------------------------------------------
#define HIGH 0x1
#define LOW 0x0
#define INPUT 0x0
#define OUTPUT 0x1
#define INPUT_PULLUP 0x2
#define LED_BUILTIN 13
#define PI 3.1415926535897932384626433832795
#define DEC 10
#define HEX 16
#define OCT 8
#define BIN 2

static const uint8_t A0 = 14, A1 = 15, A2 = 16, A3 = 17, A4 = 18, A5 = 19, A6 = 20, A7 = 21;

typedef uint8_t byte;
typedef bool boolean;
typedef unsigned int word;

class __FlashStringHelper;
#define F(string_literal) (reinterpret_cast<const __FlashStringHelper *>(string_literal))
#define PROGMEM

// ---------------------------------------------------------------------------
// harness runtime (virtual clock, input script, event log)
// ---------------------------------------------------------------------------
namespace redu_rt {

struct Seq {
  long *v;
  int n;
  int pos;
};

struct Runtime {
  unsigned long long now_us;
  unsigned long millis_offset;   // added to millis()/micros() with natural wrap-around (roll-over experiments)
  long events;
  long max_events;
  Seq dr[64];
  Seq ar[64];
  Seq pulse;
  Seq adv;
  long latch[64];        // last level written (dw: 0/1 scaled to 0/255 by the observer, aw raw)
  long live_bytes;
  long live_blocks;
  long alloc_errors;
  int lcd_count;
  int lcd_quiet;         // 1: only out-of-row writes / bad cursor positions are logged (dumps still are)
  void *lcds[16];
  void (*lcd_dump_fn)(void *);
  int cur_pass;
};

inline Runtime &rt() {
  static Runtime r;  // function-local: sketch globals are constructed before anything else
  return r;
}

inline void die(int code) {
  fflush(stdout);
  _exit(code);
}

inline void ev(const char *fmt, ...) {
  Runtime &r = rt();
  if (++r.events > r.max_events && r.max_events > 0) {
    printf("X event_overflow %ld\n", r.events);
    die(125);
  }
  printf("E %llu ", r.now_us / 1000ULL);
  va_list ap;
  va_start(ap, fmt);
  vprintf(fmt, ap);
  va_end(ap);
  putchar('\n');
}

inline long seq_next(Seq &s, long dflt, bool &have) {
  if (s.n <= 0) {
    have = false;
    return dflt;
  }
  have = true;
  long v = s.v[s.pos < s.n ? s.pos : s.n - 1];
  if (s.pos < s.n) ++s.pos;
  return v;
}

inline void hex_text(const char *s, size_t n, char *out, size_t cap) {
  // printable ASCII except space, '%' kept; everything else %XX
  size_t o = 0;
  for (size_t i = 0; i < n && o + 4 < cap; ++i) {
    unsigned char c = static_cast<unsigned char>(s[i]);
    if (c > 32 && c < 127 && c != '%') {
      out[o++] = static_cast<char>(c);
    } else {
      o += snprintf(out + o, cap - o, "%%%02X", c);
    }
  }
  out[o] = 0;
}

inline void dump_lcds() {
  Runtime &r = rt();
  if (r.lcd_dump_fn == nullptr) return;
  for (int i = 0; i < r.lcd_count; ++i) r.lcd_dump_fn(r.lcds[i]);
}

}  // namespace redu_rt

// ---------------------------------------------------------------------------
// heap accounting: only operator new/delete (what the sketch allocates) is counted;
// String uses malloc directly and is therefore not part of the count.
// ---------------------------------------------------------------------------
namespace redu_rt {
struct BlockHeader {
  size_t size;
  unsigned int magic;
  unsigned int kind;  // 1 scalar, 2 array
};
const unsigned int kMagic = 0x52454455u;
inline void *alloc_block(size_t size, unsigned int kind) {
  BlockHeader *h = static_cast<BlockHeader *>(malloc(sizeof(BlockHeader) + (size ? size : 1)));
  if (h == nullptr) {
    printf("X oom\n");
    die(3);
  }
  h->size = size;
  h->magic = kMagic;
  h->kind = kind;
  Runtime &r = rt();
  r.live_bytes += static_cast<long>(size);
  r.live_blocks += 1;
  return h + 1;
}
inline void free_block(void *p, unsigned int kind) {
  if (p == nullptr) return;
  BlockHeader *h = static_cast<BlockHeader *>(p) - 1;
  Runtime &r = rt();
  if (h->magic != kMagic) {
    printf("M bad_free magic\n");
    r.alloc_errors += 1;
    die(66);
  }
  if (h->kind != kind) {
    printf("M alloc_dealloc_mismatch\n");
    r.alloc_errors += 1;
    die(66);
  }
  h->magic = 0xDEADu;
  r.live_bytes -= static_cast<long>(h->size);
  r.live_blocks -= 1;
  free(h);
}
}  // namespace redu_rt

#ifndef REDU_NO_NEW_OVERRIDE
void *operator new(size_t n) { return redu_rt::alloc_block(n, 1); }
void *operator new[](size_t n) { return redu_rt::alloc_block(n, 2); }
void operator delete(void *p) noexcept { redu_rt::free_block(p, 1); }
void operator delete[](void *p) noexcept { redu_rt::free_block(p, 2); }
void operator delete(void *p, size_t) noexcept { redu_rt::free_block(p, 1); }
void operator delete[](void *p, size_t) noexcept { redu_rt::free_block(p, 2); }
#endif

// ---------------------------------------------------------------------------
// String
// ---------------------------------------------------------------------------
class String {
 public:
  String(const char *cstr = "") { init(); if (cstr) copy(cstr, strlen(cstr)); }
  String(const String &s) { init(); copy(s.buf_, s.len_); }
  String(const __FlashStringHelper *s) { init(); const char *p = reinterpret_cast<const char *>(s); if (p) copy(p, strlen(p)); }
  explicit String(char c) { init(); copy(&c, 1); }
  explicit String(unsigned char v, unsigned char base = 10) { init(); num(static_cast<unsigned long>(v), base); }
  explicit String(int v, unsigned char base = 10) { init(); snum(static_cast<long>(v), base); }
  explicit String(unsigned int v, unsigned char base = 10) { init(); num(static_cast<unsigned long>(v), base); }
  explicit String(long v, unsigned char base = 10) { init(); snum(v, base); }
  explicit String(unsigned long v, unsigned char base = 10) { init(); num(v, base); }
  explicit String(float v, unsigned char places = 2) { init(); flt(static_cast<double>(v), places); }
  explicit String(double v, unsigned char places = 2) { init(); flt(v, places); }
  ~String() { if (buf_ != sso_) free(buf_); buf_ = nullptr; len_ = 0; }

  String &operator=(const String &rhs) { if (this != &rhs) copy(rhs.buf_, rhs.len_); return *this; }
  String &operator=(const char *cstr) { if (cstr) copy(cstr, strlen(cstr)); else copy("", 0); return *this; }
  String &operator=(const __FlashStringHelper *s) { const char *p = reinterpret_cast<const char *>(s); copy(p, strlen(p)); return *this; }

  unsigned int length() const { return static_cast<unsigned int>(len_); }
  const char *c_str() const { return buf_; }

  bool concat(const char *s, size_t n) {
    if (n == 0) return true;
    // the source may alias our own buffer
    char *tmp = static_cast<char *>(malloc(n + 1));
    memcpy(tmp, s, n);
    reserve(len_ + n);
    memcpy(buf_ + len_, tmp, n);
    len_ += n;
    buf_[len_] = 0;
    free(tmp);
    return true;
  }
  bool concat(const String &s) { return concat(s.buf_, s.len_); }
  bool concat(const char *s) { return s ? concat(s, strlen(s)) : false; }
  bool concat(char c) { return concat(&c, 1); }
  bool concat(int v) { String t(v); return concat(t); }
  bool concat(unsigned int v) { String t(v); return concat(t); }
  bool concat(long v) { String t(v); return concat(t); }
  bool concat(unsigned long v) { String t(v); return concat(t); }
  bool concat(float v) { String t(v); return concat(t); }
  bool concat(double v) { String t(v); return concat(t); }
  bool concat(unsigned char v) { String t(v); return concat(t); }

  String &operator+=(const String &r) { concat(r); return *this; }
  String &operator+=(const char *r) { concat(r); return *this; }
  String &operator+=(char r) { concat(r); return *this; }
  String &operator+=(unsigned char r) { concat(r); return *this; }
  String &operator+=(int r) { concat(r); return *this; }
  String &operator+=(unsigned int r) { concat(r); return *this; }
  String &operator+=(long r) { concat(r); return *this; }
  String &operator+=(unsigned long r) { concat(r); return *this; }
  String &operator+=(float r) { concat(r); return *this; }
  String &operator+=(double r) { concat(r); return *this; }

  int compareTo(const String &s) const { return strcmp(buf_, s.buf_); }
  bool equals(const String &s) const { return len_ == s.len_ && memcmp(buf_, s.buf_, len_) == 0; }
  bool equals(const char *s) const { return s != nullptr && strcmp(buf_, s) == 0; }
  bool operator==(const String &r) const { return equals(r); }
  bool operator==(const char *r) const { return equals(r); }
  bool operator!=(const String &r) const { return !equals(r); }
  bool operator!=(const char *r) const { return !equals(r); }
  bool operator<(const String &r) const { return compareTo(r) < 0; }
  bool operator>(const String &r) const { return compareTo(r) > 0; }
  bool operator<=(const String &r) const { return compareTo(r) <= 0; }
  bool operator>=(const String &r) const { return compareTo(r) >= 0; }

  char charAt(unsigned int i) const { return i < len_ ? buf_[i] : 0; }
  char operator[](unsigned int i) const { return i < len_ ? buf_[i] : 0; }
  char &operator[](unsigned int i) {
    static char dummy;
    if (i >= len_) { dummy = 0; return dummy; }
    return buf_[i];
  }

  String substring(unsigned int from) const { return substring(from, static_cast<unsigned int>(len_)); }
  String substring(unsigned int from, unsigned int to) const {
    if (from > to) { unsigned int t = from; from = to; to = t; }
    String out;
    if (from >= len_) return out;
    if (to > len_) to = static_cast<unsigned int>(len_);
    out.copy(buf_ + from, to - from);
    return out;
  }
  int indexOf(char c) const { const char *p = strchr(buf_, c); return p ? static_cast<int>(p - buf_) : -1; }
  int indexOf(const String &s) const { const char *p = strstr(buf_, s.buf_); return p ? static_cast<int>(p - buf_) : -1; }
  long toInt() const { return atol(buf_); }
  float toFloat() const { return static_cast<float>(atof(buf_)); }
  double toDouble() const { return atof(buf_); }
  void trim() {
    size_t b = 0, e = len_;
    while (b < e && (buf_[b] == ' ' || buf_[b] == '\t' || buf_[b] == '\n' || buf_[b] == '\r')) ++b;
    while (e > b && (buf_[e - 1] == ' ' || buf_[e - 1] == '\t' || buf_[e - 1] == '\n' || buf_[e - 1] == '\r')) --e;
    memmove(buf_, buf_ + b, e - b);
    len_ = e - b;
    buf_[len_] = 0;
  }
  void toUpperCase() { for (size_t i = 0; i < len_; ++i) if (buf_[i] >= 'a' && buf_[i] <= 'z') buf_[i] -= 32; }
  void toLowerCase() { for (size_t i = 0; i < len_; ++i) if (buf_[i] >= 'A' && buf_[i] <= 'Z') buf_[i] += 32; }
  bool startsWith(const String &p) const { return len_ >= p.len_ && memcmp(buf_, p.buf_, p.len_) == 0; }
  bool endsWith(const String &p) const { return len_ >= p.len_ && memcmp(buf_ + len_ - p.len_, p.buf_, p.len_) == 0; }
  void reserve(size_t n) {
    if (n + 1 <= cap_) return;
    size_t ncap = cap_ * 2 > n + 1 ? cap_ * 2 : n + 1;
    char *nb = static_cast<char *>(malloc(ncap));
    memcpy(nb, buf_, len_ + 1);
    if (buf_ != sso_) free(buf_);
    buf_ = nb;
    cap_ = ncap;
  }

 private:
  char sso_[24];
  char *buf_;
  size_t len_;
  size_t cap_;
  void init() { buf_ = sso_; cap_ = sizeof(sso_); len_ = 0; sso_[0] = 0; }
  void copy(const char *s, size_t n) {
    if (s >= buf_ && s <= buf_ + len_) {  // aliasing
      char *tmp = static_cast<char *>(malloc(n + 1));
      memcpy(tmp, s, n);
      reserve(n);
      memcpy(buf_, tmp, n);
      free(tmp);
    } else {
      reserve(n);
      memcpy(buf_, s, n);
    }
    len_ = n;
    buf_[len_] = 0;
  }
  void num(unsigned long v, unsigned char base) {
    char tmp[72];
    int i = 71;
    tmp[i] = 0;
    if (base < 2) base = 10;
    do { unsigned d = static_cast<unsigned>(v % base); tmp[--i] = static_cast<char>(d < 10 ? '0' + d : 'a' + d - 10); v /= base; } while (v);
    copy(tmp + i, 71 - i);
  }
  void snum(long v, unsigned char base) {
    if (base == 10 && v < 0) {
      num(static_cast<unsigned long>(-(v + 1)) + 1UL, 10);
      String t("-");
      t.concat(*this);
      copy(t.buf_, t.len_);
    } else {
      num(static_cast<unsigned long>(v), base);
    }
  }
  void flt(double v, unsigned char places) {
    char tmp[64];
    snprintf(tmp, sizeof tmp, "%.*f", static_cast<int>(places), v);
    copy(tmp, strlen(tmp));
  }
};

class StringSumHelper : public String {
 public:
  StringSumHelper(const String &s) : String(s) {}
  StringSumHelper(const char *p) : String(p) {}
  StringSumHelper(char c) : String(c) {}
  StringSumHelper(unsigned char num) : String(num) {}
  StringSumHelper(int num) : String(num) {}
  StringSumHelper(unsigned int num) : String(num) {}
  StringSumHelper(long num) : String(num) {}
  StringSumHelper(unsigned long num) : String(num) {}
  StringSumHelper(float num) : String(num) {}
  StringSumHelper(double num) : String(num) {}
};

inline StringSumHelper &operator+(const StringSumHelper &lhs, const String &rhs) { StringSumHelper &a = const_cast<StringSumHelper &>(lhs); a.concat(rhs); return a; }
inline StringSumHelper &operator+(const StringSumHelper &lhs, const char *cstr) { StringSumHelper &a = const_cast<StringSumHelper &>(lhs); a.concat(cstr); return a; }
inline StringSumHelper &operator+(const StringSumHelper &lhs, char c) { StringSumHelper &a = const_cast<StringSumHelper &>(lhs); a.concat(c); return a; }
inline StringSumHelper &operator+(const StringSumHelper &lhs, unsigned char num) { StringSumHelper &a = const_cast<StringSumHelper &>(lhs); a.concat(num); return a; }
inline StringSumHelper &operator+(const StringSumHelper &lhs, int num) { StringSumHelper &a = const_cast<StringSumHelper &>(lhs); a.concat(num); return a; }
inline StringSumHelper &operator+(const StringSumHelper &lhs, unsigned int num) { StringSumHelper &a = const_cast<StringSumHelper &>(lhs); a.concat(num); return a; }
inline StringSumHelper &operator+(const StringSumHelper &lhs, long num) { StringSumHelper &a = const_cast<StringSumHelper &>(lhs); a.concat(num); return a; }
inline StringSumHelper &operator+(const StringSumHelper &lhs, unsigned long num) { StringSumHelper &a = const_cast<StringSumHelper &>(lhs); a.concat(num); return a; }
inline StringSumHelper &operator+(const StringSumHelper &lhs, float num) { StringSumHelper &a = const_cast<StringSumHelper &>(lhs); a.concat(num); return a; }
inline StringSumHelper &operator+(const StringSumHelper &lhs, double num) { StringSumHelper &a = const_cast<StringSumHelper &>(lhs); a.concat(num); return a; }

// ---------------------------------------------------------------------------
// Serial
// ---------------------------------------------------------------------------
class HardwareSerial {
 public:
  void begin(unsigned long baud) { redu_rt::ev("serial_begin %lu", baud); }
  void end() {}
  operator bool() const { return true; }
  int available() { return 0; }
  int read() { return -1; }
  String readStringUntil(char) { return String(""); }
  String readString() { return String(""); }
  void flush() {}

  size_t print(const String &s) { add(s.c_str(), s.length()); return s.length(); }
  size_t print(const char *s) { if (!s) return 0; add(s, strlen(s)); return strlen(s); }
  size_t print(const __FlashStringHelper *s) { return print(reinterpret_cast<const char *>(s)); }
  size_t print(char c) { add(&c, 1); return 1; }
  size_t print(unsigned char v, int base = DEC) { return print(static_cast<unsigned long>(v), base); }
  size_t print(int v, int base = DEC) { return print(static_cast<long>(v), base); }
  size_t print(unsigned int v, int base = DEC) { return print(static_cast<unsigned long>(v), base); }
  size_t print(long v, int base = DEC) { String t(v, static_cast<unsigned char>(base)); return print(t); }
  size_t print(unsigned long v, int base = DEC) { String t(v, static_cast<unsigned char>(base)); return print(t); }
  size_t print(double number, int digits = 2) {
    // Arduino Print::printFloat
    if (isnan(number)) return print("nan");
    if (isinf(number)) return print("inf");
    if (number > 4294967040.0) return print("ovf");
    if (number < -4294967040.0) return print("ovf");
    size_t n = 0;
    if (number < 0.0) { n += print('-'); number = -number; }
    double rounding = 0.5;
    for (int i = 0; i < digits; ++i) rounding /= 10.0;
    number += rounding;
    unsigned long int_part = static_cast<unsigned long>(number);
    double remainder = number - static_cast<double>(int_part);
    n += print(int_part);
    if (digits > 0) n += print('.');
    while (digits-- > 0) {
      remainder *= 10.0;
      unsigned int to_print = static_cast<unsigned int>(remainder);
      n += print(to_print);
      remainder -= to_print;
    }
    return n;
  }
  size_t println() { flush_line(); return 2; }
  template <typename T>
  size_t println(const T &v) { size_t n = print(v); flush_line(); return n + 2; }
  template <typename T>
  size_t println(const T &v, int arg) { size_t n = print(v, arg); flush_line(); return n + 2; }
  size_t write(uint8_t c) { char ch = static_cast<char>(c); add(&ch, 1); return 1; }

 private:
  char line_[4096];
  size_t n_ = 0;
  void add(const char *s, size_t n) {
    for (size_t i = 0; i < n; ++i) {
      if (s[i] == '\n') { flush_line(); continue; }
      if (n_ + 1 < sizeof line_) line_[n_++] = s[i];
    }
  }
  void flush_line() {
    char enc[3 * 4096 + 8];
    redu_rt::hex_text(line_, n_, enc, sizeof enc);
    redu_rt::ev("serial %s", enc);
    n_ = 0;
    redu_rt::dump_lcds();
  }
};

inline HardwareSerial &redu_serial() {
  static HardwareSerial s;
  return s;
}
#define Serial (redu_serial())

// ---------------------------------------------------------------------------
// digital / analog / time
// ---------------------------------------------------------------------------
inline void pinMode(int pin, int mode) {
  redu_rt::ev("pinMode %d %s", pin, mode == OUTPUT ? "OUTPUT" : (mode == INPUT_PULLUP ? "INPUT_PULLUP" : (mode == INPUT ? "INPUT" : "?")));
}
inline void digitalWrite(int pin, int value) {
  if (pin >= 0 && pin < 64) redu_rt::rt().latch[pin] = value ? 1 : 0;
  redu_rt::ev("dw %d %d", pin, value ? 1 : 0);
}
inline int digitalRead(int pin) {
  bool have = false;
  long v = 0;
  if (pin >= 0 && pin < 64) v = redu_rt::seq_next(redu_rt::rt().dr[pin], 0, have);
  if (!have) v = (pin >= 0 && pin < 64) ? (redu_rt::rt().latch[pin] ? 1 : 0) : 0;
  redu_rt::ev("dr %d %ld", pin, v);
  return v ? HIGH : LOW;
}
inline void analogWrite(int pin, int value) {
  if (pin >= 0 && pin < 64) redu_rt::rt().latch[pin] = value;
  redu_rt::ev("aw %d %d", pin, value);
}
inline int analogRead(int pin) {
  bool have = false;
  long v = 0;
  if (pin >= 0 && pin < 64) v = redu_rt::seq_next(redu_rt::rt().ar[pin], 0, have);
  if (!have && pin >= 0 && pin < 14) {  // analogRead(0) addresses channel A0
    v = redu_rt::seq_next(redu_rt::rt().ar[pin + 14], 0, have);
  }
  redu_rt::ev("ar %d %ld", pin, v);
  return static_cast<int>(v);
}
inline unsigned long millis() {
  unsigned long v = static_cast<unsigned long>(redu_rt::rt().now_us / 1000ULL) + redu_rt::rt().millis_offset;
  redu_rt::ev("millis %lu", v);
  return v;
}
inline unsigned long micros() { return static_cast<unsigned long>(redu_rt::rt().now_us) + redu_rt::rt().millis_offset * 1000UL; }
inline void delay(unsigned long ms) {
  redu_rt::ev("delay %lu", ms);
  redu_rt::rt().now_us += static_cast<unsigned long long>(ms) * 1000ULL;
}
inline void delayMicroseconds(unsigned int us) {
  redu_rt::ev("delay_us %u", us);
  redu_rt::rt().now_us += us;
}
inline unsigned long pulseIn(int pin, int state, unsigned long timeout = 1000000UL) {
  (void)state;
  bool have = false;
  long v = redu_rt::seq_next(redu_rt::rt().pulse, 0, have);
  if (v < 0) v = 0;
  redu_rt::ev("pulseIn %d %ld", pin, v);
  redu_rt::rt().now_us += (v > 0) ? static_cast<unsigned long long>(v) : static_cast<unsigned long long>(timeout);
  return static_cast<unsigned long>(v);
}
inline void tone(int pin, unsigned int frequency, unsigned long duration = 0) {
  if (duration) redu_rt::ev("tone %d %u %lu", pin, frequency, duration);
  else redu_rt::ev("tone %d %u", pin, frequency);
}
inline void noTone(int pin) { redu_rt::ev("notone %d", pin); }
inline long map(long x, long in_min, long in_max, long out_min, long out_max) {
  return (x - in_min) * (out_max - out_min) / (in_max - in_min) + out_min;
}
inline long random(long howbig) { (void)howbig; return 0; }
inline long random(long a, long b) { (void)b; return a; }
inline void randomSeed(unsigned long) {}

#define constrain(amt, low, high) ((amt) < (low) ? (low) : ((amt) > (high) ? (high) : (amt)))
#define radians(deg) ((deg)*DEG_TO_RAD)
#define sq(x) ((x) * (x))
#define lowByte(w) ((uint8_t)((w)&0xff))
#define highByte(w) ((uint8_t)((w) >> 8))
#define bitRead(value, bit) (((value) >> (bit)) & 0x01)

// The real Arduino.h defines these as macros (double evaluation, no type promotion).
#undef min
#undef max
#undef abs
#undef round
#define min(a, b) ((a) < (b) ? (a) : (b))
#define max(a, b) ((a) > (b) ? (a) : (b))
#define abs(x) ((x) > 0 ? (x) : -(x))
#define round(x) ((x) >= 0 ? (long)((x) + 0.5) : (long)((x)-0.5))

#endif  // REDU_MOCK_ARDUINO_H
