"""C12 — target(): validate first, transpile faithfully, upload only on request.

Fault enumeration over the real Reduino.target(): (platform, board) validity x upload x PlatformIO
present/absent x script kind x fault position (every single step of the pipeline; thorough: ordered
pairs).  subprocess.run, tempfile.mkdtemp and the pathlib writers are wrapped by a recorder / fault
injector; monitors check ordering of effects, propagation of failures and the produced artefacts.
"""
from __future__ import annotations

import configparser
import itertools
import json
import pathlib
import shutil
import subprocess
import sys
import tempfile
import types
from pathlib import Path
from typing import Any, Dict, List, Optional, Tuple

from rmc import explore
from rmc.runner import Report

ID = "C12"
LEVEL = "fault_enumeration"
ROOT = Path(__file__).resolve().parent.parent

HEAD = 'from Reduino import target\ntarget("COM7")\n'
SCRIPTS = {
    "plain": (HEAD + "from Reduino.Actuators import Led\nled = Led(13)\nwhile True:\n    led.toggle()\n", []),
    "servo": (HEAD + "from Reduino.Actuators import Servo\nsv = Servo(9)\nsv.write(90)\n", ["Servo"]),
    "lcd": (HEAD + "from Reduino.Displays import LCD\nlcd = LCD(rs=12, en=11, d4=5, d5=4, d6=3, d7=2)\nlcd.line(0, \"hi\")\n", ["LiquidCrystal"]),
    "lcdi2c": (HEAD + "from Reduino.Displays import LCD\npanel = LCD(i2c_addr=39)\npanel.line(0, \"yo\")\n", ["LiquidCrystal_I2C"]),
    "all": (HEAD + "from Reduino.Actuators import Servo\nfrom Reduino.Displays import LCD\nsv = Servo(9)\nlcd = LCD(rs=12, en=11, d4=5, d5=4, d6=3, d7=2)\npanel = LCD(i2c_addr=39)\n", ["Servo", "LiquidCrystal", "LiquidCrystal_I2C"]),
    "servo_in_loop": (HEAD + "from Reduino.Actuators import Servo\nwhile True:\n    arm = Servo(9)\n    arm.write(90)\n", ["Servo"]),
    "servo_in_loop_lcd_top": (HEAD + "from Reduino.Actuators import Servo\nfrom Reduino.Displays import LCD\npanel = LCD(i2c_addr=39)\nwhile True:\n    arm = Servo(9)\n    arm.write(90)\n    panel.line(0, \"x\")\n", ["Servo", "LiquidCrystal_I2C"]),
    "tab_literal": (HEAD + "from Reduino.Communication import SerialMonitor\nmon = SerialMonitor(9600)\nmon.write(\"T:\t21C\")\nx = 'id\tvalue'\nmon.write(x)\n", []),
    # saved by an editor that writes a byte-order mark: CPython runs such a file, so target() must read it as well
    "bom": ("\ufeff" + HEAD + "from Reduino.Actuators import Servo\nsv = Servo(9)\nsv.write(45)\n", ["Servo"]),
    "non_ascii": (HEAD + "from Reduino.Communication import SerialMonitor\nmon = SerialMonitor(9600)\nmon.write(\"caf\u00e9 \u2713\")  # gr\u00fc\u00dfe\n", []),
    "rejected": (HEAD + "from Reduino.Actuators import Led\nled = Led(13)\nwhile True:\n    break\n", None),
}
PAIRS = {
    "valid": ("atmelavr", "uno"),
    "valid_mega": ("atmelmegaavr", "nano_every"),
    "mismatch": ("atmelavr", "nano_every"),
    "bad_platform": ("espressif32", "uno"),
    "bad_board": ("atmelavr", "not_a_board"),
    "bad_empty_board": ("atmelavr", ""),
    "bad_empty_platform": ("", "uno"),
    "bad_both_empty": ("", ""),
    "bad_none_board": ("atmelavr", None),
    "bad_none_platform": (None, "uno"),
}
FAULTS = ["none", "version", "read_main", "mkdtemp", "mkdir", "write_main", "write_ini", "run", "upload"]


class Injected(OSError):
    pass


class Env:
    def __init__(self, base: Path, pio_present: bool, faults: Tuple[str, ...], fault_code: int = 1):
        self.fault_code = fault_code  # exit status of a failing tool run (negative: killed by that signal)
        self.base = base
        self.pio_present = pio_present
        self.faults = set(faults)
        self.trace: List[tuple] = []
        self.project: Optional[Path] = None

    # -- subprocess -------------------------------------------------------------------
    def run(self, args, *a, **kw):
        args = list(args)
        kind = "other"
        if args[:2] == ["pio", "--version"]:
            kind = "version"
        elif args == ["pio", "run"]:
            kind = "run"
        elif args == ["pio", "run", "-t", "upload"]:
            kind = "upload"
        self.trace.append(("proc", kind, tuple(args), str(kw.get("cwd")) if kw.get("cwd") is not None else None, bool(kw.get("check"))))
        if args and args[0] == "pio" and not self.pio_present:
            raise FileNotFoundError(2, "No such file or directory: 'pio'")
        if kind in self.faults:
            if kw.get("check"):
                raise subprocess.CalledProcessError(self.fault_code, args)
            return subprocess.CompletedProcess(args, self.fault_code)
        return subprocess.CompletedProcess(args, 0)


def run_target(env: Env, script_text: str, port: str, upload: bool, platform: str, board: str):
    import Reduino

    script_file = env.base / "user_script.py"
    script_file.write_text(script_text, encoding="utf-8")
    fake_main = types.ModuleType("__main__")
    fake_main.__file__ = str(script_file)

    real_run, real_mkdtemp = subprocess.run, tempfile.mkdtemp
    real_write, real_mkdir, real_read = pathlib.Path.write_text, pathlib.Path.mkdir, pathlib.Path.read_text
    proj_root = env.base / "projects"
    proj_root.mkdir(exist_ok=True)

    def mkdtemp(*a, **kw):
        env.trace.append(("mkdtemp",))
        if "mkdtemp" in env.faults:
            raise Injected("injected mkdtemp failure")
        d = real_mkdtemp(prefix="proj-", dir=str(proj_root))
        env.project = Path(d)
        return d

    def write_text(self, data, *a, **kw):
        name = "main" if self.name == "main.cpp" else "ini" if self.name == "platformio.ini" else self.name
        env.trace.append(("write", name, str(self)))
        if f"write_{name}" in env.faults:
            raise Injected(f"injected write failure for {self.name}")
        return real_write(self, data, *a, **kw)

    def mkdir(self, *a, **kw):
        env.trace.append(("mkdir", str(self)))
        if "mkdir" in env.faults:
            raise Injected("injected mkdir failure")
        return real_mkdir(self, *a, **kw)

    def read_text(self, *a, **kw):
        if self == script_file:
            env.trace.append(("read_main",))
            if "read_main" in env.faults:
                raise Injected("injected read failure")
        return real_read(self, *a, **kw)

    saved_main = sys.modules["__main__"]
    subprocess.run = env.run
    tempfile.mkdtemp = mkdtemp
    pathlib.Path.write_text = write_text
    pathlib.Path.mkdir = mkdir
    pathlib.Path.read_text = read_text
    sys.modules["__main__"] = fake_main
    stderr = sys.stderr
    sys.stderr = open("/dev/null", "w")
    try:
        try:
            return Reduino.target(port, upload=upload, platform=platform, board=board), None
        except BaseException as exc:  # noqa: BLE001 - everything target() lets escape is part of the observation
            return None, exc
    finally:
        sys.stderr.close()
        sys.stderr = stderr
        sys.modules["__main__"] = saved_main
        subprocess.run, tempfile.mkdtemp = real_run, real_mkdtemp
        pathlib.Path.write_text, pathlib.Path.mkdir, pathlib.Path.read_text = real_write, real_mkdir, real_read


ORDER = ["version", "read_main", "mkdtemp", "mkdir", "write_main", "write_ini", "run", "upload"]


def monitor(case: dict, env: Env, result, exc) -> Optional[str]:
    from Reduino.transpile.emitter import emit
    from Reduino.transpile.parser import parse

    pair_kind, upload, pio_present, script_kind, faults = case["pair"], case["upload"], case["pio"], case["script"], case["faults"]
    text, libs = SCRIPTS[script_kind]
    platform, board = PAIRS[pair_kind]
    trace = env.trace
    procs = [t for t in trace if t[0] == "proc"]
    writes = [t for t in trace if t[0] in ("write", "mkdir", "mkdtemp")]
    # 1. validation first
    if not pair_kind.startswith("valid"):
        if not isinstance(exc, ValueError):
            return f"invalid pair must raise ValueError, got {type(exc).__name__ if exc else 'a result'}"
        if procs or writes:
            return f"invalid pair but effects happened first: {trace}"
        return None
    # 2. PlatformIO only on request
    if not upload and procs:
        return f"upload=False but a process was started: {procs}"
    if upload and not pio_present:
        if not isinstance(exc, RuntimeError):
            return f"missing PlatformIO with upload=True must raise RuntimeError, got {type(exc).__name__ if exc else 'a result'}"
        if writes:
            return f"missing PlatformIO but files were written first: {writes}"
        if [p for p in procs if p[1] != "version"]:
            return "build started although PlatformIO is missing"
        return None
    # which step fails first (in pipeline order)?
    steps = [s for s in ORDER if upload or s not in ("version", "run", "upload")]
    expected_fault = None
    if libs is None:
        pass
    first_fault = next((s for s in steps if s in faults), None)
    parse_pos = steps.index("mkdtemp")  # parse/emit happen between read_main and mkdtemp
    if libs is None and (first_fault is None or steps.index(first_fault) >= parse_pos):
        # parser rejects the script
        if not isinstance(exc, ValueError):
            return f"script rejected by the parser must surface as ValueError, got {type(exc).__name__ if exc else 'a result'}"
        if writes or [p for p in procs if p[1] != "version"]:
            return f"parser rejected the script but a project was written/built: {trace}"
        return None
    if first_fault is not None:
        if exc is None:
            return f"injected failure at step {first_fault!r} was swallowed (target returned normally)"
        if first_fault == "version" and not isinstance(exc, RuntimeError):
            return f"failing 'pio --version' must raise RuntimeError, got {type(exc).__name__}"
        # nothing after the fault point
        allowed = steps[: steps.index(first_fault) + 1]
        seen_steps = []
        for t in trace:
            if t[0] == "proc":
                seen_steps.append(t[1])
            elif t[0] == "write":
                seen_steps.append("write_" + t[1])
            else:
                seen_steps.append(t[0])
        extra = [s for s in seen_steps if s not in allowed]
        if extra:
            return f"effects after the failure at {first_fault!r}: {extra}"
        if first_fault in ("run",) and any(p[1] == "upload" for p in procs):
            return "upload attempted after a failed build"
        return None
    # 3. no fault: artefacts
    if exc is not None:
        return f"unexpected {type(exc).__name__}: {exc}"
    want_cpp = emit(parse(text.lstrip("\ufeff")))  # (a byte-order mark belongs to the file encoding, not to the text)
    if result != want_cpp:
        return "return value is not the firmware source of the calling script"
    if env.project is None:
        return "no project directory created"
    main_cpp = env.project / "src" / "main.cpp"
    ini = env.project / "platformio.ini"
    if not main_cpp.exists() or main_cpp.read_text(encoding="utf-8") != want_cpp:
        return "src/main.cpp is not the returned source"
    cp = configparser.ConfigParser(interpolation=None)
    cp.read_string(ini.read_text(encoding="utf-8"))
    if len(cp.sections()) != 1:
        return f"ini sections {cp.sections()}"
    sec = cp[cp.sections()[0]]
    got = {k: sec[k] for k in sec}
    got_libs = got.pop("lib_deps", "").split()
    want = {"platform": platform, "board": board, "framework": "arduino", "upload_port": case["port"]}
    if got != want:
        return f"ini {got} expected {want}"
    if sorted(got_libs) != sorted(libs):
        return f"lib_deps {got_libs} expected {libs}"
    if upload:
        kinds = [p[1] for p in procs]
        if kinds != ["version", "run", "upload"]:
            return f"process sequence {kinds}, expected version, run, upload"
        for p in procs[1:]:
            if p[3] is None or Path(p[3]).resolve() != env.project.resolve():
                return f"{p[1]} not run in the project directory (cwd={p[3]})"
        # build only after both files exist
        idx_run = next(i for i, t in enumerate(trace) if t[0] == "proc" and t[1] == "run")
        written = {t[1] for t in trace[:idx_run] if t[0] == "write"}
        if not {"main", "ini"} <= written:
            return "build started before the project files were written"
    return None


def registry_pairs() -> None:
    """Every registered board is a valid pair of its own (the artefacts must name exactly that board); every
    re-spelling of a board id that is not itself registered (case variants, '-' <-> '_') is an invalid pair."""
    from Reduino.toolchain import pio

    for board, platform in sorted(pio.BOARD_TO_PLATFORM.items()):
        PAIRS.setdefault(f"valid:reg:{board}", (platform, board))
        for variant in (board.upper(), board.lower(), board.swapcase(), board.capitalize(), board.replace("-", "_"), board.replace("_", "-")):
            if variant != board and variant not in pio.BOARD_TO_PLATFORM:
                PAIRS.setdefault(f"bad:respelled:{variant}", (platform, variant))


def cases(tier: str):
    ports = ["COM7", "/dev/ttyACM0"]
    base_pairs = list(PAIRS)
    registry_pairs()
    for pair in PAIRS:
        if pair in base_pairs:
            continue
        for upload in ((True, False) if tier == "thorough" or pair.startswith("bad") else (False,)):
            yield {"pair": pair, "upload": upload, "pio": True, "script": "servo", "faults": [], "port": "COM7"}
    for case in _grid_cases(tier, base_pairs, ports):
        yield case


def _grid_cases(tier: str, PAIRS, ports):
    for pair, upload, pio, script in itertools.product(PAIRS, (True, False), (True, False), SCRIPTS):
        fault_sets: List[Tuple[str, ...]] = [(f,) if f != "none" else () for f in FAULTS]
        if tier == "thorough":
            fault_sets += [(a, b) for a, b in itertools.permutations(FAULTS[1:], 2) if FAULTS.index(a) < FAULTS.index(b)]
        for faults in fault_sets:
            for port in (ports if not faults else ports[:1]):
                yield {"pair": pair, "upload": upload, "pio": pio, "script": script, "faults": list(faults), "port": port}
            if faults and set(faults) & {"version", "run", "upload"} and pio and upload:
                # the failing tool run ends with another status: 2, 255, killed by SIGKILL / SIGTERM / SIGSEGV
                for code in (2, 255, -9, -15, -11):
                    yield {"pair": pair, "upload": upload, "pio": pio, "script": script, "faults": list(faults), "port": ports[0], "code": code}
    # ports that are not file names: the text reaches platformio.ini unchanged
    for port in ("rfc2217://192.168.0.17:4000", "socket://10.0.0.5:2323", "COM3/", "a//b", "./dev/tty", "../tty", "/dev//ttyUSB0", "/dev/./tty", "hwgrep://0483:5740", "loop://", "C:\\dev\\port", "~/tty"):
        for upload in (True, False):
            yield {"pair": PAIRS[0] if isinstance(PAIRS, list) else list(PAIRS)[0], "upload": upload, "pio": True, "script": list(SCRIPTS)[0], "faults": [], "port": port}


def run_case(case: dict, base: Path) -> Optional[str]:
    work = Path(tempfile.mkdtemp(prefix="c12-", dir=str(base)))
    try:
        env = Env(work, case["pio"], tuple(case["faults"]), case.get("code", 1))
        platform, board = PAIRS[case["pair"]]
        result, exc = run_target(env, SCRIPTS[case["script"]][0], case["port"], case["upload"], platform, board)
        if isinstance(exc, (KeyboardInterrupt, SystemExit)):
            raise exc
        return monitor(case, env, result, exc)
    finally:
        shutil.rmtree(work, ignore_errors=True)


def main(tier: str, seed: int, only=None) -> int:
    report = Report(ID, LEVEL, tier, seed)
    base = ROOT / "build"
    base.mkdir(exist_ok=True)
    n = 0
    kinds = set()
    for case in cases(tier):
        n += 1
        kinds.add((case["pair"], case["upload"], case["pio"], case["script"], tuple(case["faults"])))
        err = run_case(case, base)
        report.outcomes["violation" if err else "ok"] += 1
        if err:
            key = explore.history_key(ID, "target", [("case", (json.dumps(case, sort_keys=True),), {})])
            report.violation(key, f"target() case {case}: {err}", {"case": case, "message": err})
    report.evaluations = n
    report.distinct = set(range(len(kinds)))
    report.add_sample({"pair": "valid", "upload": True, "pio": True, "script": "servo", "faults": ["run"], "expect": "CalledProcessError propagates, no upload"})
    report.add_sample({"pair": "valid", "upload": False, "pio": False, "script": "plain", "faults": [], "expect": "returns firmware, no process started"})
    report.bounds = {"grid": "5 platform/board pairs x upload x pio present/absent x 6 scripts x fault position (9 single; thorough: + ordered pairs)",
                     "registry": "every registered board as a valid pair (artefacts name exactly that board) + every case / hyphen re-spelling that is not registered as an invalid pair"}
    return report.finish(
        rule="full product of the configuration grid with one injected fault per run (thorough: ordered pairs); monitors: validation first, PlatformIO only on request, artefacts, process order, no effect after a failure, failures propagate; distinct = distinct (configuration, fault set) combinations",
        assumptions=["subprocess.run, tempfile.mkdtemp and pathlib.Path.{read_text,write_text,mkdir} are the seams through which target() touches the outside world"],
    )


def replay(path: str) -> int:
    data = json.loads(open(path).read())
    base = ROOT / "build"
    base.mkdir(exist_ok=True)
    registry_pairs()
    e1 = run_case(data["case"], base)
    e2 = run_case(data["case"], base)
    if e1 != e2:
        print("REPLAY-DIVERGENCE", e1, e2)
        return 2
    print("replay:", e1)
    if e1:
        print(f"VIOLATION property={ID} replay={path}")
        return 1
    return 0
