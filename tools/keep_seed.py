#!/usr/bin/env python3
"""usage: tools/keep_seed.py <seed src dir> <name> <detected: yes|no|partly> <checks csv> [note]"""
import json, shutil, sys
from pathlib import Path
src, name, detected, checks = sys.argv[1:5]
note = sys.argv[5] if len(sys.argv) > 5 else ""
dst = Path("/verif/seeded") / name
dst.mkdir(parents=True, exist_ok=True)
for f in Path(src).iterdir():
    if f.is_file():
        shutil.copy(f, dst / f.name)
meta = json.loads((dst / "meta.json").read_text())
meta["confirmed_by_builder"] = "tools/verify_seed.sh: full test suite passes with the patch, demo fails with it and passes on the clean tree (scratch worktree, removed afterwards)"
meta["checked_with"] = [f"tools/run_seed.sh seeded/{name}/patch.diff {c}" for c in checks.split(",") if c]
meta["detected"] = detected
if note:
    meta["note"] = note
(dst / "meta.json").write_text(json.dumps(meta, indent=1) + "\n")
print("kept", dst)
