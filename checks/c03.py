"""C03 — transpile-time evaluation (constant folding / propagation) never changes meaning.

Catalogue of fold sites (delays, brightness, blink duration, range bounds, global initialisers, tone
frequency, LCD progress arguments, motor speed, conditions, len(), flash_pattern(), glyph()) x supply modes:
literal, name-free expressions (incl. chained comparisons, conditional expressions, casts, min/max/abs/len,
floor division and modulo of negatives, powers), a name bound once, a name re-bound on another control-flow
path (if taken / not taken / sibling arm, for 0-2 times, while, try, nested, main loop, helper via global),
strings and lists mutated on those paths (append / remove with duplicates / += ).  Depth: one path
mutation (quick) / every ordered pair (thorough).  Oracle: firmware trace == CPython trace (CPython IS the
value "at that program point at run time"), and the literal / expression / name variants of the same value
give the same firmware trace.
"""
from __future__ import annotations

import itertools
import json
from typing import Dict, Iterator, List, Optional, Sequence, Tuple

from rmc import evidence, observe
from rmc.runner import Report
from . import common

ID = "C03"
LEVEL = "model_checking"
MOD = "checks.c03"
PRO = common.PROLOGUE + "from Reduino.Actuators import Led, Buzzer, DCMotor\nfrom Reduino.Displays import LCD\n"

NUM_SITES: Dict[str, Tuple[List[str], List[str]]] = {
    "sleep": ([], ["sleep({V})"]),
    "brightness": (["led = Led(9)"], ["led.set_brightness({V})", "mon.write(led.get_brightness())"]),
    "blink": (["led2 = Led(6)"], ["led2.blink({V}, times=2)"]),
    "range": ([], ["for i in range({V} // 50):", "    mon.write(i)"]),
    "global_init": ([], ["g = {V}", "mon.write(g)", "g2 = {V} + 1", "mon.write(g2)"]),
    "tone": (["bz = Buzzer(8)"], ["bz.play_tone({V})", "mon.write(bz.get_frequency())"]),
    "progress": (["lcd = LCD(i2c_addr=39, cols=8, rows=2)"], ["lcd.progress(0, {V} // 25, max_value=8, width=8)", 'mon.write("#")']),
    "motor": (["m = DCMotor(4, 7, 11)"], ["m.set_speed({V} / 400)", "mon.write(m.get_speed())"]),
    "condition": ([], ["if {V} > 150:", '    mon.write("big")', "else:", '    mon.write("small")']),
    "ifexp": ([], ["mon.write(1 if {V} == 200 else 0)"]),
    "fstring": ([], ['mon.write(f"v={{V}}")']),
    "beep": (["bz2 = Buzzer(5)"], ["bz2.beep(440, on_ms={V} // 10, off_ms=0, times=2)"]),
    "tone_dur": (["bz3 = Buzzer(7)"], ["bz3.play_tone(440, {V})", "mon.write(bz3.get_state())", "sleep(3)"]),
    "glyph_row": (["lcdg = LCD(i2c_addr=38, cols=8, rows=2)"], ["lcdg.glyph(2, [{V} // 10, 1, 2, 3, 4, 5, 6, 7])", 'mon.write("g")']),
}

EXPRS = [
    "200", "100 + 100", "2 * 100", "200 if 1 < 5 < 9 else 40", "40 if 1 < 5 < 3 else 200", "200 if 0 <= 300 <= 255 else 120", "max(1, 2) * 100", "int(2.5 * 80)", 'len("abcd") * 50',
    "min(300, 200)", "abs(-200)", "200 if True and not False else 7", "(1 < 2) * 200", "7 // 2 * 66 + 2", "-7 // 2 + 204", "-7 % 3 + 198", "2 ** 3 * 25", "int(\"200\")", "int(float(\"2e2\"))",
    "200 if 3 > 2 > 1 else 0", "0 if 3 > 2 > 2 else 200", "(5 > 3) + 199", "not 0 and 200", "[200][0]" if False else "200 + 0 * 5", "1 + 2 * 100 - 1", "(1 + 1) * (50 + 50)", "400 >> 1", "100 << 1", "255 & 200 | 200",
    "200 if 1 == 1 != 2 else 0", "0 if 1 < 2 < 3 < 3 else 200", "round(199.6)" if False else "int(199.6) + 1",
]

ZEROS = ["0", "0.0", "500 - 500", "False", "0 * 7", "-0", "int(0.9)"]
FRACTIONS = ["7 / 2", "1.5", "0.75 * 2", "11 / 4", "2.5", "10 / 4", "0.29 * 1000", "200.5", "199.999", "0.5", "0.4 + 0.2", "3 * 1.9"]

# Expressions whose operators have C semantics when they are NOT folded (known C01 findings: floor
# division / modulo of negatives, **, value-returning and/or); they are used at folding sites only.
FOLD_ONLY = {"-7 // 2 + 204", "-7 % 3 + 198", "2 ** 3 * 25", "not 0 and 200"}
NON_FOLDING_SITES = {"global_init", "condition", "ifexp", "fstring", "motor", "progress"}
NO_HOST_SITES = {"tone", "beep", "tone_dur"}  # the Buzzer has no host model: metamorphic comparison only

# control-flow paths that (may) re-bind v; {A} = input dependent value read at run time
PATHS: Dict[str, List[str]] = {
    "if": ["if a > 3:", "    v = 120"],
    "else": ["if a > 3:", "    q1 = 1", "else:", "    v = 120"],
    "elif": ["if a > 9:", "    v = 50", "elif a > 3:", "    v = 120", "else:", "    q2 = 0"],
    "for": ["for i in range(n):", "    v = v + 10"],
    "while": ["k = 0", "while k < n:", "    k += 1", "    v = v - 10"],
    "try": ["try:", "    v = 120", "except:", "    v = 1"],
    "nested": ["for i in range(n):", "    if i == 1:", "        v = 120"],
    "aug_if": ["if a > 3:", "    v += 20"],
    "tuple_if": ["if a > 3:", "    v, q3 = 120, 1"],
    "helper": ["if a > 3:", "    setv()"],
    "for_try": ["for i in range(n):", "    try:", "        v = v + 10", "    except:", "        q6 = 0"],
    "if_try": ["if a > 3:", "    try:", "        v = 120", "    except:", "        q7 = 0"],
    "try_except_arm": ["try:", "    q8 = 1", "except:", "    v = 1"],
    "try_if": ["try:", "    if a > 3:", "        v = 120", "except:", "    q9 = 0"],
    "straight": ["v = 120"],
    "straight_div": ["v //= 2"], "straight_truediv": ["v /= 0.5"], "straight_floordiv": ["v //= 3"], "straight_mul": ["v *= 2"], "straight_sub": ["v -= 30"], "straight_mod": ["v %= 150"],
    "straight_div_if": ["if a > 3:", "    v //= 2"],  # (200 -> 100 -> 50 -> 25: stays integral for the passes run; a fractional value in an int variable is KF-C02-first-assignment-wins)
    "straight_aug": ["v += 20"],
    "straight_tuple": ["v, q4 = 120, 2"],
    "none": [],
}
HELPER_DEF = ["def setv():", "    global v", "    v = 120"]

INPUTS = [2, 5, 7]


def _runs(passes: int) -> List[dict]:
    return [{"passes": passes, "ar": {"A0": [a]}} for a in INPUTS]


HEAD = ['a = analog_read("A0")', "n = a % 3"]


def gen_numeric(tier: str) -> Iterator[dict]:
    for site, (decls, use) in NUM_SITES.items():
        def render(v: str) -> List[str]:
            return [ln.replace("{V}", v) for ln in use]

        # (a)/(b) literal and name-free expressions at the site, setup and loop placement
        for ei, e in enumerate(EXPRS):
            if e in FOLD_ONLY and site in NON_FOLDING_SITES:
                continue
            expr = f"({e})"
            yield {"id": f"N:{site}:expr{ei}:setup", "space": "N", "src": common.script(HEAD + decls + render(expr), None, prologue=PRO), "runs": _runs(0)[:1], "group": f"{site}:setup:{eval(e)}", "value": e}
            if ei < 6 or tier == "thorough":
                yield {"id": f"N:{site}:expr{ei}:loop", "space": "N", "src": common.script(HEAD + decls, render(expr), prologue=PRO), "runs": _runs(2)[:1], "group": f"{site}:loop:{eval(e)}", "value": e}
        if site in ("sleep", "blink", "beep", "tone_dur"):
            for zi, e in enumerate(ZEROS):
                expr = f"({e})"
                for kind, pre, val in (("lit", [], expr), ("name", [f"v = {e}"], "v"), ("rt", ["z0 = a - a", f"v = z0 + {expr}"], "v")):
                    yield {"id": f"N:{site}:zero{zi}:{kind}", "space": "N", "src": common.script(HEAD + decls + pre + render(val), None, prologue=PRO), "runs": _runs(0)[:1], "group": f"{site}:zero:{e}", "value": e}
        if site in ("sleep", "blink", "beep"):
            # fractional durations: the folded value and the value a run-time variable carries into the same call
            # must give the same wait (the firmware truncates towards zero in both cases)
            for fi, e in enumerate(FRACTIONS):
                expr = f"({e})"
                yield {"id": f"N:{site}:frac{fi}:lit", "space": "N", "src": common.script(HEAD + decls + render(expr), None, prologue=PRO), "runs": _runs(0)[:1], "group": f"{site}:frac:{e}", "value": e}
                yield {"id": f"N:{site}:frac{fi}:name", "space": "N", "src": common.script(HEAD + decls + [f"v = {e}"] + render("v"), None, prologue=PRO), "runs": _runs(0)[:1], "group": f"{site}:frac:{e}", "value": e}
                yield {"id": f"N:{site}:frac{fi}:rt", "space": "N", "src": common.script(HEAD + decls + ["z0 = a - a", f"v = z0 + {expr}"] + render("v"), None, prologue=PRO), "runs": _runs(0)[:1], "group": f"{site}:frac:{e}", "value": e}
        # (c) a name bound once (to a literal and to each expression)
        for ei, e in enumerate(EXPRS if tier == "thorough" else EXPRS[:8]):
            if e in FOLD_ONLY:
                continue
            yield {"id": f"N:{site}:name{ei}:setup", "space": "N", "src": common.script(HEAD + decls + [f"v = {e}"] + render("v"), None, prologue=PRO), "runs": _runs(0)[:1], "group": f"{site}:setup:{eval(e)}", "value": e}
        yield {"id": f"N:{site}:name:loop", "space": "N", "src": common.script(HEAD + decls + ["v = 200"], render("v"), prologue=PRO), "runs": _runs(2)[:1], "group": f"{site}:loop:200", "value": "200"}
        # (d) a name re-bound on another path before the site
        path_names = [p for p in PATHS if p != "none"]
        combos: List[Tuple[str, ...]] = [(p,) for p in path_names]
        if tier == "thorough":
            combos += list(itertools.permutations(path_names, 2))
        for combo in combos:
            body = [ln for p in combo for ln in PATHS[p]]
            defs = HELPER_DEF if "helper" in combo else []
            pre = HEAD + decls + ["v = 200"]
            yield {"id": f"N:{site}:path:{'+'.join(combo)}:setup", "space": "N", "src": common.script(pre + body + render("v"), None, prologue=PRO, defs=defs), "runs": _runs(0)}
            # the mutation lives in the main loop AFTER the site: the second pass must see it
            yield {"id": f"N:{site}:path:{'+'.join(combo)}:loop-after", "space": "N", "src": common.script(pre, render("v") + body, prologue=PRO, defs=defs), "runs": _runs(3)}
            # use, re-bind, use again in one block: the value baked for the FIRST use is the earlier one
            yield {"id": f"N:{site}:path:{'+'.join(combo)}:use-mut-use", "space": "N", "src": common.script(pre + render("v") + body + render("v"), None, prologue=PRO, defs=defs), "runs": _runs(0)}
            yield {"id": f"N:{site}:path:{'+'.join(combo)}:loop-before", "space": "N", "src": common.script(pre, body + render("v"), prologue=PRO, defs=defs), "runs": _runs(2)}
        # the site sits in a sibling arm of the arm that re-binds v
        sib = ["if a > 5:", "    v = 120"] + ["elif a > 3:"] + common.indent(render("v")) + ["else:"] + common.indent(render("v"))
        yield {"id": f"N:{site}:sibling", "space": "N", "src": common.script(HEAD + decls + ["v = 200"] + sib, None, prologue=PRO), "runs": _runs(0)}
        # the site sits inside a helper; the global changes between two calls
        use_fn = ["def use_it():"] + common.indent(render("v"))
        if site not in ("global_init",):
            yield {"id": f"N:{site}:in-helper", "space": "N", "src": common.script(HEAD + decls + ["v = 200"] + use_fn + ["use_it()", "v = 120", "use_it()"], None, prologue=PRO), "runs": _runs(0)[:1]}


# -- containers ---------------------------------------------------------------------------------
CONT_SITES = {
    "len_str": ([], 'w = "abc"', ["mon.write(len(w))", "mon.write(len(w) * 2 + 1)", "if len(w) > 3:", '    mon.write("long")'], "str"),
    "len_list": ([], "w = [1, 0, 1, 0, 1]", ["mon.write(len(w))", "for i in range(len(w)):", "    mon.write(w[i])"], "list"),
    "len_list_rt": ([], "w = [a, 0, 1, 0, 1]", ["mon.write(len(w))", "for i in range(len(w)):", "    mon.write(w[i])"], "list"),
    "flash": (["led = Led(9)"], "w = [1, 0, 1, 0, 1]", ["led.flash_pattern(w, 5)", "mon.write(led.get_brightness())"], "list"),
    "glyph": (["lcd = LCD(i2c_addr=39, cols=8, rows=2)"], "w = [1, 2, 3, 4, 5, 6, 7, 8]", ["lcd.glyph(1, w)", 'mon.write("#")'], "glyph"),
    "while_len": ([], 'w = "ab"', ["k2 = 0", "while len(w) < 5 and k2 < 9:", '    w = w + "x"', "    k2 += 1", "mon.write(k2)", "mon.write(w)"], "str"),
}
STR_MUTS = {"concat": ['w = w + "de"'], "aug": ['w += "z"'], "rebind": ['w = "q"'], "fstr": ['w = f"{w}!"']}
LIST_MUTS = {"append": ["w.append(9)"], "remove": ["w.remove(1)"], "append_remove": ["w.append(9)", "w.remove(1)"], "remove_twice": ["w.remove(1)", "w.remove(1)"], "append_rt": ["w.append(a)"], "remove_rt": ["w.remove(a % 2)"],
             "rebind": ["w = [7, 7]"], "tuple_rebind": ["w, zq = [7, 7, 7, 7, 7, 7], 1"], "tuple_rebind_rt": ["w, zq = [a], [a, 5]"]}
GLYPH_MUTS = {"swap": ["w.remove(8)", "w.append(9)"], "rebind": ["w = [8, 7, 6, 5, 4, 3, 2, 1]"], "dup": ["w.remove(1)", "w.append(1)"]}
WRAPS = {
    "straight": lambda body: body,
    "if": lambda body: ["if a > 3:"] + common.indent(body),
    "else": lambda body: ["if a > 3:", "    q1 = 1", "else:"] + common.indent(body),
    "for": lambda body: ["for i in range(n):"] + common.indent(body),
    "elif_first": lambda body: ["if a > 3:"] + common.indent(body) + ["elif a > 1:", "    q2 = 1"],
    "try": lambda body: ["try:"] + common.indent(body) + ["except:", "    q3 = 1"],
    "for_try": lambda body: ["for i in range(n):", "    try:"] + common.indent(body, 2) + ["    except:", "        q4 = 1"],
    "if_try": lambda body: ["if a > 3:", "    try:"] + common.indent(body, 2) + ["    except:", "        q5 = 1"],
    "helper": None,
}


def gen_containers(tier: str) -> Iterator[dict]:
    for site, (decls, init, use, kind) in CONT_SITES.items():
        muts = {"str": STR_MUTS, "list": LIST_MUTS, "glyph": GLYPH_MUTS}[kind]
        pre = HEAD + decls + [init]
        yield {"id": f"K:{site}:plain", "space": "K", "src": common.script(pre + use, None, prologue=PRO), "runs": _runs(0)[:1]}
        for mname, mut in muts.items():
            for wname, wrap in WRAPS.items():
                if wrap is None:
                    defs = ["def mutate():", "    global w"] + common.indent(mut)
                    body = ["if a > 3:", "    mutate()"]
                    if kind != "str" and mname != "rebind":
                        defs = ["def mutate():"] + common.indent(mut)
                else:
                    defs = []
                    body = wrap(mut)
                yield {"id": f"K:{site}:{mname}:{wname}:use-mut-use", "space": "K", "src": common.script(pre + use + body + use, None, prologue=PRO, defs=defs), "runs": _runs(0)}
                yield {"id": f"K:{site}:{mname}:{wname}:setup", "space": "K", "src": common.script(pre + body + use, None, prologue=PRO, defs=defs), "runs": _runs(0)}
                if wname in ("straight", "if") or tier == "thorough":
                    yield {"id": f"K:{site}:{mname}:{wname}:loop-after", "space": "K", "src": common.script(pre, use + body, prologue=PRO, defs=defs), "runs": _runs(3)[:2]}
            # the use sits in a sibling arm of the arm that mutates
            sib = ["if a > 5:"] + common.indent(mut) + ["elif a > 3:"] + common.indent(use) + ["else:"] + common.indent(use)
            yield {"id": f"K:{site}:{mname}:sibling", "space": "K", "src": common.script(pre + sib, None, prologue=PRO), "runs": _runs(0)}


def judge(case, tr, dev_runs, host_runs):
    from rmc.pipeline import default_judge

    cid = case["id"][2:] if case["id"].startswith("Ub") else (case["id"][1:] if case["id"].startswith("U") else case["id"])
    site = cid.split(":")[1] if cid.startswith("N:") else ""
    if site in NO_HOST_SITES and tr.status == "ok" and dev_runs is not None:
        return ("match", "") if all(d.ok for d in dev_runs) else ("violation", "firmware did not run cleanly")

    return default_judge(case, tr, dev_runs, host_runs, check_lcd=True)


def gen_underscore(tier: str) -> Iterator[dict]:
    """The same path / container cases with names that start with an underscore (`_v`, `_w`): user names, not
    entries of the transpiler's own environment."""
    import re

    sites = None if tier == "thorough" else {"sleep", "global_init", "condition", "len_list", "flash", "len_str"}
    for case in itertools.chain(gen_numeric("quick"), gen_containers("quick")):
        parts = case["id"].split(":")
        if parts[2] not in ("path", "sibling", "in-helper") and parts[0] != "K":
            continue
        if sites is not None and parts[1] not in sites:
            continue
        src = re.sub(r"\b([vw])\b", r"_\1", case["src"])
        yield {"id": "U" + case["id"], "space": "U", "src": src, "runs": case["runs"]}
        # ... and with names that are also the names of built-ins the transpiler knows (`max`, `min`): variables like any other
        if "max(" not in case["src"] and "min(" not in case["src"]:
            src = re.sub(r"\bw\b", "min", re.sub(r"\bv\b", "max", case["src"]))
            yield {"id": "Ub" + case["id"], "space": "U", "src": src, "runs": case["runs"]}


def generate(tier: str, only=None) -> Iterator[dict]:
    if not only or "N" in only:
        yield from gen_numeric(tier)
    if not only or "K" in only:
        yield from gen_containers(tier)
    if not only or "U" in only:
        yield from gen_underscore(tier)


def main(tier: str, seed: int, only=None) -> int:
    report = Report(ID, LEVEL, tier, seed)
    groups: Dict[str, Dict[str, List[str]]] = {}

    def note(rec):
        case = rec.get("case") or {}
        # metamorphic: literal / expression / name variants with the same value give the same firmware trace
        if rec.get("digest") and rec.get("pair"):
            groups.setdefault(rec["pair"], {}).setdefault(rec["digest"], []).append(rec["id"])

    def with_pairs(it):
        for c in it:
            if c.get("group"):
                c["pair"] = c["group"]
            yield c

    common.drive(report, MOD, with_pairs(generate(tier, only)), opts={"want_digest": True, "host_timeout": 5.0}, batch_size=40, on_record=note,
                 bad=("violation", "nocompile", "transpile_crash", "transpile_timeout"))
    for g, digests in groups.items():
        if len(digests) > 1:
            ranked = sorted(digests.items(), key=lambda kv: -len(kv[1]))
            for digest, ids in ranked[1:]:
                from rmc import explore

                key = explore.history_key(ID, "metamorphic", [(g, tuple(ids[:3]), {})])
                report.violation(key, f"site {g}: variants {ids[:4]} produce a different firmware trace than {ranked[0][1][:2]} although they supply the same value", {"group": g, "ids": ids[:10]})
    report.outcomes["metamorphic_groups"] = len(groups)
    report.bounds = {"numeric_sites": len(NUM_SITES), "expressions": len(EXPRS), "paths": len(PATHS) - 1, "container_sites": len(CONT_SITES), "path_depth": "1 (quick) / ordered pairs (thorough)", "inputs": INPUTS}
    report.add_sample({"site": "brightness", "path": "for", "script": common.script(HEAD + NUM_SITES["brightness"][0] + ["v = 200"] + PATHS["for"] + [ln.replace("{V}", "v") for ln in NUM_SITES["brightness"][1]], None, prologue=PRO).splitlines()[8:]})
    report.add_sample({"site": "flash", "mutation": "append_remove inside if"})
    return report.finish(
        rule="complete product fold site x supply mode x control-flow path (x mutation) x inputs; oracle: differential with CPython on every path + equal firmware traces for equal values; distinct = distinct firmware texts",
        assumptions=evidence.COMMON_ASSUMPTIONS,
    )


def replay(path: str) -> int:
    data = json.loads(open(path).read())
    if "case" not in data:
        print("metamorphic group violation: re-run the check to reproduce")
        return 1
    return common.replay_program(ID, MOD, path, bad=("violation", "nocompile"))
