#!/venv/bin/python
"""Developer tool: (re)generate /verif/known_findings.json from the table below.

The file is committed and is NEVER written by a check at run time.  Program witnesses are complete
inputs (script text + input script); their key is what a check computes for the same case, so a
different failing program of the same defect class is still reported as a VIOLATION.
"""
import json
import sys
from pathlib import Path

ROOT = Path(__file__).resolve().parent.parent
sys.path.insert(0, str(ROOT))
sys.path.insert(0, "/repo/src")

from rmc import pipeline  # noqa: E402
from checks import common  # noqa: E402
from checks import c05  # noqa: E402
from checks import c06  # noqa: E402
from checks import c02, c15  # noqa: E402


def c02_case(assigns, summary, forms=None):
    case = c02.build(assigns, 'w', forms)
    case.update(space='A')
    return {'key': pipeline.case_key('C02', case), 'summary': summary, 'case': case}



def c14_rebind_cases():
    from rmc import explore
    from checks import c14

    out = []
    for case in c14.generate("quick"):
        d = case["desc"]
        if d.get("rebind") in (["lcd_par", "lcd_i2c"], ["lcd_i2c", "lcd_par"]):
            out.append({"key": explore.history_key("C14", "script", [("src", (case["src"],), {})]), "summary": f"dev bound to {d['rebind'][0]} then to {d['rebind'][1]}", "case": {"src": case["src"], "want": case["want"], "desc": d}})
    return out


def c05_pin_cases():
    """the pin-form cases that fail on the tree: every kind whose configuration is hoisted to the start of setup()"""
    out = []
    for case in c05.gen_pin_forms("quick"):
        _, kind, form, upos, passes = case["id"].split(":")
        if form not in ("derived_var", "reassigned_var") or kind not in ("button", "buzzer", "lcd", "motor", "servo"):
            continue
        if kind == "button" and passes == "0":
            continue
        body = {k: v for k, v in case.items() if k != "id"}
        out.append({"key": pipeline.case_key("C05", body), "summary": case["id"], "case": body})
    return out


def c05_case(*args):
    case = c05.build(*args)
    case = {k: v for k, v in case.items() if k != "id"}
    return {"key": pipeline.case_key("C05", case), "summary": " / ".join(case["src"].splitlines()[8:]), "case": case}


P = common.PROLOGUE
PA = P + "from Reduino.Actuators import Led, RGBLed, Servo, DCMotor\n"
AB = 'a = analog_read("A0") - 10\nb = analog_read("A1") - 10\n'
RUN_AB = [{"passes": 0, "ar": {"A0": [3], "A1": [12]}}]


def prog(check_id, src, runs, summary, **extra):
    case = dict({"src": src, "runs": runs}, **extra)
    return {"key": pipeline.case_key(check_id, case), "summary": summary, "case": case}


FINDINGS = [
    # ---------------------------------------------------------------- fixed in /repo
    dict(id="KF-C12-ensure-pio", property="C12", status="fixed", commit="ca5c83b",
         what="target(upload=False) required PlatformIO (ensure_pio() was unconditional)", cases=[]),
    dict(id="KF-C10-promotion-order", property="C10", status="fixed", commit="3db4cdb",
         what="declaration order of variables hoisted out of branches/loops followed Python set iteration order (PYTHONHASHSEED dependent output)", cases=[]),
    dict(id="KF-C07-toplevel-header-comment", property="C07", status="fixed", commit="c5cd40e",
         what="trailing comment on a top-level block header ('while True:  # main loop') moved the main loop into setup() as 'while (true) {}'", cases=[]),
    dict(id="KF-C08-rgb-on-keywords", property="C08", status="fixed", commit="3a0ece7",
         what="RGBLed.on(red=.., green=.., blue=..) ignored the keywords (always 255,255,255)", cases=[]),
    dict(id="KF-C11-tuple-length", property="C11", status="fixed", commit="2bd254e",
         what="'a, b = (1,)' crashed with IndexError; 'a, b = 1, 2, 3' silently dropped a value", cases=[]),
    dict(id="KF-C11-constant-fold-bound", property="C11", status="fixed", commit="377ec11",
         what="constant folding of 9**9**9 / 10**10**10 / 1 << 10**10 never terminated", cases=[]),
    dict(id="KF-C15-loop-button-initial-sample", property="C15", status="fixed", commit="4fb44b2",
         what="a Button declared at the top of the 'while True:' body fired on_click at start-up when the line idles HIGH (no initial sample in setup())", cases=[]),
    dict(id="KF-C11-non-python-text", property="C11", status="fixed", commit="6912288",
         what="text that is not Python ('x = 7 +') was accepted, unparseable lines silently dropped, instead of SyntaxError", cases=[]),
    dict(id="KF-C01-continue-dropped", property="C01", status="fixed", commit="6dcbe9f",
         what="'continue' was silently dropped (rest of the loop body ran)",
         cases=[prog("C01", P + AB + "for i in range(4):\n    if i == 1:\n        continue\n    mon.write(i)\nn = 0\nwhile True:\n    n += 1\n    if n == 2:\n        continue\n    mon.write(n)\n",
                     [{"passes": 3, "ar": {"A0": [3], "A1": [12]}}], "continue in a for loop and directly in the main loop")]),
    dict(id="KF-C01-true-division", property="C01", status="fixed", commit="92a5223",
         what="'/' was integer division on the device (7 / 2 == 3)",
         cases=[prog("C01", P + AB + "x = 7\ny = x / 2\nmon.write(y)\nmon.write(a / 4)\nz = 9.0\nz /= 4\nmon.write(z)\n", RUN_AB, "true division of ints")]),
    dict(id="KF-C06-helper-order", property="C06", status="fixed", commit="558c961",
         what="a helper calling a later-defined helper, or the generated ultrasonic routine, was used before its definition (sketch did not compile)", cases=[]),
    dict(id="KF-C20-pullup-latch", property="C20", status="fixed", commit="0e5248f",
         what="Core: pin_mode(p, INPUT_PULLUP); pin_mode(p, INPUT); digital_read(p) returned HIGH (pull-up default latched as a written value)", cases=[]),
    dict(id="KF-C01-global-in-helper", property="C01", status="fixed", commit="8cbce31",
         what="a helper defined before the global it assigns ('global x; x = x + 1') updated a fresh local instead of the global",
         cases=[prog("C01", P + "def bump():\n    global x\n    x = x + 1\n" + AB + "x = a\nbump()\nbump()\nmon.write(x)\n", RUN_AB, "global assigned inside a helper defined before the global")]),
    dict(id="KF-C11-constant-growth", property="C11", status="fixed", commit="cda3f73",
         what="named constants grew without bound from line to line (a = a * a, s = s + s): transpilation effectively non-terminating; int(inf) escaped as OverflowError; parenthesised walrus raised SyntaxError; deep nesting escaped as RecursionError", cases=[]),
    dict(id="KF-C06-string-literal-concat", property="C06", status="fixed", commit="a7da6c2",
         what="'\"a\" + \"b\"' was emitted as the sum of two C string literals (sketch did not compile)", cases=[]),
    dict(id="KF-C18-late-animation-never-ticked", property="C18", status="fixed", commit="d4b6861",
         what="an LCD animation started inside the main loop never advanced (no tick emitted); started inside a helper it referenced an undeclared state variable", cases=[]),
    dict(id="KF-C09-list-ownership", property="C09", status="fixed", commit="74ca4bf",
         what="__redu_list had no copy constructor / assignment / destructor: list literals evaluated in loop() leaked every pass and 'b = a' shared one buffer (use-after-free after append)",
         cases=[prog("C09", common.PROLOGUE + 'a = analog_read("A0")\nx = a\ns = "s"\nwhile True:\n    L = [1, 2, 3]\n    L.append(7)\n    mon.write(x)\n    mon.write(len(L))\n    mon.write(L[0])\n    mon.write(L[-1])\n',
                     [{"passes": 4, "ar": {"A0": [2]}}], "list literal assigned inside the main loop (leaked 12+ bytes per pass)", placement="loop")]),
    dict(id="KF-C03-stale-constants", property="C03", status="fixed", commit="e2c78a7",
         what="len(name) / flash_pattern(name) / glyph(slot, name) and list bookkeeping were folded from a flow-insensitive environment: stale after a re-binding or list mutation inside if/while/for/try, the main loop or a helper; unsound list mirror for run-time elements", cases=[]),
    dict(id="KF-C03-shared-lists-and-helper-globals", property="C03", status="fixed", commit="9f359f9",
         what="tracked list values were shared by reference between sibling branch scopes (a mirrored append/remove in one arm changed the fold in another), and globals re-bound/mutated by a helper were still folded as constants by its callers", cases=[]),
    dict(id="KF-C02-call-site-variants", property="C02", status="fixed", commit="9bca83d",
         what="helper call signatures were only recorded on the right-hand side of assignments (mon.write(half(2.5)) / show(2.5) bound the int variant and truncated); with int+float or bool+String variants a bare double / string literal made the call ambiguous or chose the wrong overload",
         cases=[prog("C02", c02.PRO + "\n".join(c02.HELPERS + c02.HEAD) + "\nmon.write(half(2.5))\nmon.write(idf(a * 0.5))\nr1 = idf(3)\nr2 = idf(2.5)\nmon.write(r2)\n", [{"passes": 0, "ar": {"A0": [3]}}], "float arguments at non-assignment call sites; int and float variants of one helper", space="P")]),
    dict(id="KF-C07-silent-drop", property="C07", status="fixed", commit="20ac550",
         what="statements the parser did not understand were silently dropped ('x[0] = v', 'a = b = 3', one-line 'if x: y = 1', 'del x', unknown device methods, device calls inside a helper defined before the device, multi-line calls fragment by fragment)", cases=[]),
    dict(id="KF-C07-block-headers-and-semicolons", property="C07", status="fixed", commit="b6b4e01",
         what="headers of unsupported blocks ('with', 'class', 'for x in items', while-'else:', 'finally:', decorators) were skipped and their bodies ran in the enclosing block; of 'a = 1; b = 2' only the first statement was translated", cases=[]),
    dict(id="KF-C07-layout", property="C07", status="fixed", commit="1b5ed5f",
         what="a comment line at a smaller indentation ended the enclosing block; a trailing comment on a nested 'else:'/'elif'/'except' header hid the branch; optional spaces ('led . toggle ( )', 'range (3)', 'target ( \"COM3\" )') made the dispatch miss the statement", cases=[]),
    # ---------------------------------------------------------------- open
    dict(id="KF-C02-first-assignment-wins", property="C02", status="open", commit=None,
         what="a name is declared with the C++ type of its FIRST assignment: a later float assigned to an int name is truncated, an int assigned to a bool name becomes 1, and an if-branch int / else-branch float takes the first branch's type",
         cases=[c02_case([("int_lit", "top"), ("float_lit", "top")], "x = 3; x = 2.5 (top level)"),
                c02_case([("int_expr", "if"), ("float_expr", "loop")], "int in an if-branch, float later in the main loop"),
                c02_case([("bool_lit", "top"), ("int_expr", "top")], "x = True; x = a + 1")]),
    dict(id="KF-C02-builtins-typed-int", property="C02", status="fixed", commit="59a19a4",
         what="abs()/min()/max() results were always typed int: m = max(1, 2.5) stored 2",
         cases=[prog("C02", c02.PRO + "\n".join(c02.HELPERS + c02.HEAD) + "\nm = max(1, 2.5)\nmon.write(m)\nq = abs(a - 6.5)\nmon.write(q)\n", [{"passes": 0, "ar": {"A0": [3]}}], "m = max(1, 2.5); q = abs(a - 6.5)", space="A")]),
    dict(id="KF-C01-minmax-double-evaluation", property="C01", status="fixed", commit="6728fce",
         what="abs()/min()/max() were emitted as the Arduino macros, which evaluate their arguments twice: max(noisy(a), 3) called the helper (and its serial output) two times",
         cases=[prog("C01", P + "def noisy(v):\n    mon.write(v)\n    return v + 1\n" + AB + "mon.write(max(noisy(a), 3))\nmon.write(min(noisy(b), noisy(a)))\nmon.write(abs(noisy(a)))\n", RUN_AB, "max(noisy(a), 3) / min(noisy(b), noisy(a)) / abs(noisy(a))", space="F")]),
    dict(id="KF-C02-declared-type", property="C02", status="fixed", commit="2d66b75",
         what="a re-assignment re-typed a declared variable for the analysis (v = 3; v = a > 2; v = 7; w = v declared 'bool w'), values derived later were truncated",
         cases=[c02_case([("int_lit", "top"), ("bool_expr", "top"), ("int_expr", "top")], "x = 3; x = a > 2; x = a + 1; d = x")]),
    dict(id="KF-C03-underscore-constants", property="C03", status="fixed", commit="56deef7",
         what="names starting with '_' were never forgotten as transpile-time constants: _w = [1, 0, 1]; if a > 3: _w.remove(1); led.flash_pattern(_w, 5) played the stale pattern", cases=[]),
    dict(id="KF-C07-elif-paren", property="C07", status="fixed", commit="c8fce7d",
         what="'elif(cond):' was rejected while 'elif (cond):' and 'if(cond):' were accepted (optional spacing changed the outcome)", cases=[]),
    dict(id="KF-C09-list-copy-divergence", property="C09", status="open", commit=None,
         what="consequence of KF-C01-list-value-semantics: after 'K = L' the firmware's K is a copy, so 'K.append(1)' does not grow L; a later L.remove(L[0]) per pass empties L on the device and reads L[0] of an empty list while CPython's L keeps its length",
         cases=[prog("C09", P + "def mk(n):\n    return [n, n + 1]\n" + 'a = analog_read("A0")\nx = a\ns = "s"\nL = [1, 2, 3]\nwhile True:\n    K = L\n    K.append(1)\n    mon.write(len(K))\n    L.remove(L[0])\n    mon.write(x)\n    mon.write(len(L))\n    mon.write(L[0])\n    mon.write(L[-1])\n',
                     [{"passes": 4, "ar": {"A0": [2]}}], "K = L; K.append(1); L.remove(L[0]) in the main loop, 4 passes", placement="shared")]),
    dict(id="KF-C01-c-operator-semantics", property="C01", status="open", commit=None,
         what="an integer raised to a NEGATIVE run-time integer exponent is typed int (2 ** -b gives 1 or 0 where Python gives a float)",
         cases=[prog("C01", P + AB + "mon.write(2 ** a)\n", [{"passes": 0, "ar": {"A0": [3], "A1": [12]}}], "a = -7: 2 ** a")]),
    dict(id="KF-C01-and-or-values", property="C01", status="fixed", commit="7c0c42b",
         what="'and' / 'or' over numbers yielded 0/1 instead of the deciding operand (x = a or 9 stored 1)",
         cases=[prog("C01", P + AB + "mon.write(a and b)\nmon.write(a or b)\n", [{"passes": 0, "ar": {"A0": [3], "A1": [12]}}], "a and b / a or b with integer operands")]),
    dict(id="KF-C01-floor-mod-pow", property="C01", status="fixed", commit="f559fd7",
         what="'//' and '%' used C truncation (-7 // 2 == -3, -7 % 3 == -1), a float operand of '%' did not compile, '**' was emitted verbatim (did not compile)",
         cases=[prog("C01", P + AB + "mon.write(a // 2)\nmon.write(a % 3)\n", [{"passes": 0, "ar": {"A0": [3], "A1": [12]}}], "a = -7: a // 2 and a % 3"),
                prog("C01", P + AB + "f = a / 2\nmon.write(f % 2)\nmon.write(b ** 2)\nx = a\nx //= 2\nx %= 3\nmon.write(x)\n", [{"passes": 0, "ar": {"A0": [3], "A1": [12]}}], "float %, **, //= and %=")]),
    dict(id="KF-C01-list-value-semantics", property="C01", status="open", commit=None,
         what="lists have value semantics on the device: 'M = L' and a list passed to a helper are copies, so a later append through one name is not seen through the other (Python aliases)",
         cases=[prog("C01", P + AB + "L = [a, 2, 3]\nM = L\nL.append(9)\nmon.write(len(M))\nmon.write(M[-1])\n", [{"passes": 0, "ar": {"A0": [3], "A1": [12]}}], "M = L; L.append(9); len(M)"),
                prog("C01", P + "def grow(v):\n    v.append(5)\n" + AB + "L = [a, 2]\ngrow(L)\nmon.write(len(L))\n", [{"passes": 0, "ar": {"A0": [3], "A1": [12]}}], "helper appending to its list parameter")]),
    dict(id="KF-C15-chained-comparison-double-read", property="C15", status="fixed", commit="c7a3f81",
         what="a chained comparison evaluated its middle operand twice on the device (100 < pot.read() < 900 performed two analogRead()s for one read()); nested in the middle operand the emitted text quadrupled per level (24 levels: gigabytes)",
         cases=[prog("C15", c15.PRO + 'pot = Potentiometer("A0")\nwhile True:\n    if 100 < pot.read() < 900:\n        mon.write("mid")\n    else:\n        mon.write("out")\n',
                     [{"passes": 2, "ar": {"A0": [500, 950, 50, 500]}}], "100 < pot.read() < 900 with samples 500, 950, 50, 500", space="P", meta={})]),
    dict(id="KF-C06-named-exception", property="C06", status="open", commit=None,
         what="'except Exception:' is emitted as 'catch (Exception &)' although no such type exists in the sketch (does not compile; the project's own test pins this text)",
         cases=[prog("C06", c06.PRO + "try:\n    tb = a + 1\nexcept Exception:\n    tb = 0\nmon.write(tb)\n", [{"passes": 0, "ar": {"A0": [4]}}], "try/except with a named exception", space="F", feats=["try_named"])]),
    dict(id="KF-C06-loop-variable-after-loop", property="C06", status="open", commit=None,
         what="the loop variable of 'for i in range(n)' is local to the C++ for statement: reading it after the loop (legal Python, i keeps its last value) is accepted but does not compile ('i' undeclared)",
         cases=[prog("C06", c06.PRO + "for lv in range(3):\n    mon.write(lv)\nmon.write(lv)\n", [{"passes": 0, "ar": {"A0": [4]}}], "for lv in range(3): ...; mon.write(lv) after the loop", space="F", feats=["loopvar_after"])]),
    dict(id="KF-C01-range-limit-reevaluated", property="C01", status="fixed", commit="a7aef4e",
         what="the limit of 'for i in range(n)' was re-evaluated on every iteration (body changing n ended the loop early; range(helper()) called the helper once per iteration)",
         cases=[prog("C01", P + "def noisy(v):\n    mon.write(v)\n    return v + 1\n" + AB + "n = 4\nfor i in range(noisy(1)):\n    mon.write(i)\nn = b\nfor i in range(n):\n    n = n - 1\n    mon.write(i)\n", RUN_AB, "range(noisy(1)); range(n) with n changed in the body", space="K")]),
    dict(id="KF-C01-loop-variable-rebound", property="C01", status="fixed", commit="2f27444",
         what="re-binding the loop variable inside a for loop changed the iteration ('for i in range(4): i += 2' ran twice)",
         cases=[prog("C01", P + AB + "for i in range(4):\n    mon.write(i)\n    i += 2\n    mon.write(i)\n", RUN_AB, "for i in range(4): i += 2", space="K")]),
    dict(id="KF-C03-comment-hides-assignments", property="C03", status="fixed", commit="6050996",
         what="a comment-only line at a lower column inside a branch / loop body made the constant tracker treat the block as binding nothing (stale folded len()/values)",
         cases=[prog("C03", P + 'a = analog_read("A0")\nw = [1, 2, 3]\nv = 200\nfor i in range(2):\n# note\n    w.append(5)\n    v = v + 1\nmon.write(len(w))\nmon.write(v)\n', [{"passes": 0, "ar": {"A0": [5]}}], "column-0 comment inside a for body that appends to a constant list", space="K")]),
    dict(id="KF-C06-helper-only-globals", property="C06", status="fixed", commit="6094e7c",
         what="a variable first bound through a helper's 'global' statement was never declared at file scope (sketch did not compile / main-loop assignment declared a local / constant first assignment after the helper call left the helper's value)",
         cases=[prog("C06", c06.PRO + "def setgg():\n    global gg\n    gg = 5\nsetgg()\nwhile True:\n    gg = gg + 1\n    mon.write(gg)\n    sleep(1)\n", [{"passes": 1, "ar": {"A0": [4]}}], "global gg only assigned inside a helper", space="F", feats=["fn_global_only"]),
                prog("C01", P + "def setg():\n    global g\n    g = 120\n" + AB + "setg()\ng = 200\nmon.write(g)\n", RUN_AB, "helper assigns the global before its first (constant) top-level assignment", space="F")]),
    dict(id="KF-C06-mixed-tuple-local", property="C06", status="fixed", commit="dfcc9f9",
         what="'x, w = 2, 3' with x already declared emitted 'int w' as a local of setup(): any later use in loop() did not compile",
         cases=[prog("C06", c06.PRO + "tm = 1\ntm, tn = 2, a\nwhile True:\n    tn = tn + tm\n    mon.write(tn)\n    sleep(1)\n", [{"passes": 1, "ar": {"A0": [4]}}], "tuple assignment introducing a new sketch-level name", space="F", feats=["tuple_mixed"])]),
    dict(id="KF-C20-pot-truncation", property="C20", status="fixed", commit="3b8613d",
         what="Potentiometer.read() truncated the provider's value before validating it: -0.5 read as 0 and 1023.5 as 1023 instead of raising", cases=[]),
    dict(id="KF-C11-parser-stack-overflow", property="C11", status="fixed", commit="cc28945",
         what="text on which CPython's parser gives up ('x = ' + '-' * 100000 + '1': MemoryError 'Parser stack overflowed') leaked a MemoryError from parse()", cases=[]),
    dict(id="KF-C02-tuple-retype", property="C02", status="fixed", commit="38716d3",
         what="a tuple assignment re-typed a declared variable for the analysis (v = 3; v, k = a > 2, 1; v = a + 1; d = v declared 'bool d')",
         cases=[c02_case([("int_lit", "top"), ("bool_expr", "top"), ("int_expr", "top")], "x = 3; x, side1 = a > 2, 1; x = a + 1; d = x", ("plain", "tuple", "plain"))]),
    dict(id="KF-C11-elif-quadratic", property="C11", status="fixed", commit="3b8dc05",
         what="an elif header with a long run of blanks inside its condition took quadratic time (40 000 blanks: 6 s; 80 000: killed after 20 s)", cases=[]),
    dict(id="KF-C02-forward-helper-call", property="C02", status="fixed", commit="2d2f5dd",
         what="a helper calling a helper defined further down was analysed with an unknown callee: result assumed int (report(x) returning scaled(x) / 2 truncated 0.5 to 0), no float variant generated",
         cases=[prog("C02", c02.PRO + "def report(x):\n    return scaled(scaled(x))\ndef scaled(x):\n    return x / 2\n" + "\n".join(c02.HEAD) + "\nt0 = report(2)\nmon.write(t0)\n", [{"passes": 0, "ar": {"A0": [6]}}], "caller defined above the callee", space="T")]),
    dict(id="KF-C02-device-getter-types", property="C02", status="fixed", commit="c3e0fac",
         what="device getters returning float / bool / str were typed int: v = m.get_speed() stored 0 for 0.25, mode = m.get_mode() did not compile",
         cases=[c02_case([("get_speed", "top")], "v = mot.get_speed()"), c02_case([("get_mode", "loop")], "v = mot.get_mode() in the main loop")]),
    dict(id="KF-C04-argument-evaluated-in-place", property="C04", status="fixed", commit="ee663b6",
         what="device-call arguments were inlined wherever the emitted code needs them: led.blink(pot.read()) read the ADC for every wait, m.run_for(40 * m.get_speed(), -1.0) and led.blink(led.get_brightness() // 16) read the getter after the method had changed the state", cases=[]),
    dict(id="KF-C06-list-append-conversion", property="C06", status="fixed", commit="abefdf0",
         what="names.append(\"q\"), fl.append(3.5), fl.append(int_var), names.remove(\"ab\") did not compile (element type deduced from the value as well)", cases=[]),
    dict(id="KF-C11-inf-pattern-entry", property="C11", status="fixed", commit="e1aa71d",
         what="led.flash_pattern([1e999]) / lcd.glyph(0, [inf, ...]) leaked OverflowError from int()", cases=[]),
    dict(id="KF-C15-handler-sees-stale-sample", property="C15", status="fixed", commit="5f116bf",
         what="buttons were sampled, edge-checked and their handlers called one after the other, the sample being published after the handler: is_pressed() inside a handler returned the previous pass's level (own button, and every button polled later)", cases=[]),
    dict(id="KF-C19-motor-nan", property="C19", status="fixed", commit="ec196d8",
         what="DCMotor.set_speed(float('nan')) stored NaN as the speed (|speed| <= 1 violated; mode 'drive' with a NaN applied speed)", cases=[]),
    dict(id="KF-C01-branch-variable-reset", property="C01", status="fixed", commit="336f645",
         what="a variable first assigned in a branch inside a loop was reset to its default on every iteration (for i in range(3): if i == 0: w = 5 ... write(w) printed 5, 0, 0)",
         cases=[prog("C01", P + AB + "for i in range(3):\n    if i == 0:\n        w = a + 1\n    mon.write(w)\nk = 0\nwhile k < 3:\n    k += 1\n    if k == 1:\n        v = b\n    mon.write(v)\n", RUN_AB, "first assignment in an if-branch inside for / while", space="K")]),
    dict(id="KF-C01-helper-local-writes-global", property="C01", status="fixed", commit="3c0ef0f",
         what="an assignment inside a helper without 'global' overwrote the sketch-level variable of the same name",
         cases=[prog("C01", P + "def shadow(v):\n    x = v + 1\n    y = x * 2\n    return y\n" + AB + "x = a\ny = b\nmon.write(shadow(a))\nmon.write(x)\nmon.write(y)\n", RUN_AB, "helper assigns x, y without global", space="F")]),
    dict(id="KF-C09-string-negative-index", property="C09", status="fixed", commit="362df92",
         what="s[-1] on a string was emitted as s[(-1)] (read in front of the buffer); ch = s[0] was typed int", cases=[]),
    dict(id="KF-C01-nested-branch-variable-reset", property="C01", status="fixed", commit="3151ca9",
         what="a variable first assigned in an if nested in another if (or in a loop / try inside the if) inside a loop was still reset on every iteration",
         cases=[prog("C01", P + AB + "for i in range(3):\n    if i < 2:\n        if i == 0:\n            w = a + 1\n    mon.write(w)\n", RUN_AB, "first assignment in a nested if inside a for loop", space="K")]),
    dict(id="KF-C01-main-loop-variable-lifetime", property="C01", status="fixed", commit="f752387",
         what="a variable first assigned in the body of 'while True:' was a local of loop(): a value assigned in one pass (under 'if n == 1:') was gone in the next",
         cases=[prog("C01", P + AB + "n = 0\nwhile True:\n    n += 1\n    if n == 1:\n        v = b\n    mon.write(v)\n", [{"passes": 3, "ar": {"A0": [3], "A1": [12]}}], "first assignment under 'if n == 1:' in the main loop, read in later passes", space="K")]),
    dict(id="KF-C16-keyword-evaluation-order", property="C16", status="fixed", commit="8995b49",
         what="call-bearing arguments of a device call were evaluated in signature order, not in the order written: bz.beep(frequency=f(), off_ms=g(), on_ms=h()) called h() before g()", cases=[]),
    dict(id="KF-C11-float-overflow", property="C11", status="fixed", commit="464d4f0",
         what="a folded integer argument that does not fit a double (Servo(9, min_angle=2**2000), bz.play_tone(10**400), m.set_speed(2**1024)) leaked OverflowError", cases=[]),
    dict(id="KF-C02-negated-bool", property="C02", status="fixed", commit="56e43a8",
         what="-(a > 1), -True, -(not x) were typed bool: b = -(a > 1) stored true for -1 (b + 1 == 2)",
         cases=[c02_case([("neg_bool", "top")], "v = -(a > 2)"), c02_case([("neg_not", "loop")], "v = -(not (a > 9)) in the main loop")]),
    dict(id="KF-C06-reserved-identifiers", property="C06", status="fixed", commit="91ef6d2",
         what="variables / parameters / helpers / devices named like a C++ keyword or an Arduino core name (default, long, new, delay, millis, HIGH, setup, loop ...) were accepted: the sketch did not compile, and a helper called delay() was called by the generated waits", cases=[]),
    dict(id="KF-C04-helper-above-declaration", property="C04", status="fixed", commit="79000ee",
         what="device commands inside a helper defined above the declaration were dispatched by method name only: sv.write(40) printed 40 on the serial line, rgb.blink(..) was emitted as Led.blink (did not compile), m.set_speed(..) was rejected", cases=[]),
    dict(id="KF-C01-map-round-pow", property="C01", status="fixed", commit="30d0371",
         what="Utils.map() was Arduino's integer map() typed int (map(512, 0, 1023, 0.0, 5.0) == 2), round() the Arduino macro (argument evaluated twice, ties away from zero), pow() C's pow() truncated into an int", cases=[]),
    dict(id="KF-C06-inexpressible-expressions", property="C06", status="fixed", commit="b6c55fc",
         what="calls of Python built-ins without a counterpart (sum, sorted, divmod, chr, ord, any, list, print as a value ...), min()/max() of one sequence, string repetition and list arithmetic were accepted and emitted verbatim (sketch did not compile)", cases=[]),
    dict(id="KF-C06-file-scope-lambda", property="C06", status="fixed", commit="07a376a",
         what="the single-evaluation forms of chained comparisons and numeric and/or were emitted as [&] lambdas also where the expression initialises a file-scope variable (v = 3 and 2.5): did not compile", cases=[]),
    dict(id="KF-C06-truth-of-strings-and-lists", property="C06", status="fixed", commit="16ea69e",
         what="'if text:', 'while items and n < 3:', 'not text', 'bool(items)', a conditional expression testing a string / list, and str() without an argument were accepted and did not compile", cases=[]),
    dict(id="KF-C06-mixed-type-expressions", property="C06", status="fixed", commit="b3933b1",
         what="string-vs-number and list comparisons, augmented arithmetic on lists / strings, str() of a list, and/or yielding a string, a string assigned to a number variable, a string literal on the left of a comparison were accepted and did not compile", cases=[]),
    dict(id="KF-C02-recursive-variant-join", property="C02", status="fixed", commit="3644f33",
         what="a recursive helper handing its arguments on in another order (alt(q, p, n - 1)) had the variant analysed second typed int because its partner's result was still unknown: alt(2.5, 1, 2) returned 2", cases=[]),
    dict(id="KF-C17-lcd-positional-argument-order", property="C17", status="fixed", commit="8840f2f",
         what="lcd.progress(f(), g(), max_value=h(), width=k()) evaluated the keyword arguments (hoisted into temporaries) before the positional row / value", cases=[]),
    dict(id="KF-C03-builtin-named-variables", property="C03", status="fixed", commit="5706c86",
         what="a sketch variable named max / min / abs / len / str was not seen as a name: 'max = 5; max = 7; lo = max' made lo a file-scope constant 5", cases=[]),
    dict(id="KF-C04-rebound-led-state", property="C04", status="fixed", commit="0d2cbc7",
         what="a name bound to a second Led / RGBLed kept the first one's tracked state: led = Led(9); led.on(); led = Led(6); led.toggle() switched the new Led off", cases=[]),
    dict(id="KF-C04-rebound-motor-state", property="C04", status="fixed", commit="b8fbb9a",
         what="a name bound to a second DCMotor kept the first one's tracked speed / inversion / mode", cases=[]),
    dict(id="KF-C09-nested-global-statement", property="C09", status="fixed", commit="61e4d67",
         what="a helper defined above the sketch list it re-binds, with 'global L' written inside the if / loop that re-binds it, got a lifted local instead: the sketch list was never cleared and grew every pass", cases=[]),
    dict(id="KF-C05-runtime-pin-variables", property="C05", status="open", commit=None,
         what="a Buzzer / Button / Servo / DCMotor / LCD backlight whose pin is a sketch variable that only receives its value at run time (p = base + 8, or p = 0; p = 9) is configured at the very start of setup(), before the variable is assigned: pin 0 is configured, the real pin is used unconfigured (Led, RGBLed, Ultrasonic and constant-initialised pin variables are fine)",
         cases=c05_pin_cases()),
    dict(id="KF-C06-string-operands-and-stale-lift-type", property="C06", status="fixed", commit="367efd1",
         what="\"a\" < name() < \"z\" (literals kept as const char * in the single-evaluation form), (\"a\" if c else \"b\") + \"c\" (sum of two C literals), and a name lifted out of an if in one scope leaving its type behind for the same name lifted out of a loop elsewhere did not compile", cases=[]),
    dict(id="KF-C07-target-text-in-strings", property="C07", status="fixed", commit="b982e70",
         what="a statement containing the text target(NAME) inside a string literal (lcd.line(0, \"target(COM3)\"), x = \"see target(COM8)\") was swallowed as a build directive", cases=[]),
    dict(id="KF-C17-progress-empty-range", property="C17", status="fixed", commit="a7f9d26",
         what="lcd.progress with max_value <= 0 drew a full bar (host: empty), with an explicit width <= 0 the whole row (host: one cell)", cases=[]),
    dict(id="KF-C08-argument-unpacking", property="C08", status="fixed", commit="3441566",
         what="device calls with unpacked arguments (led.blink(**{\"duration_ms\": 7}), rgb.on(**{\"red\": 10}), SerialMonitor(**{\"baud_rate\": 57600})) were accepted and bound to the defaults", cases=[]),
    dict(id="KF-C07-statement-after-multiline-docstring", property="C07", status="fixed", commit="b9f916c",
         what="a statement written after ';' on the closing line of a multi-line docstring / parenthesised import vanished with the blanked lines", cases=[]),
    dict(id="KF-C07-keyword-prefixed-spacing", property="C07", status="fixed", commit="997461e",
         what="optional spaces changed the outcome for statements whose first name starts like a continuation keyword (else_led . on ( ) rejected, led . on ( ) accepted)", cases=[]),
    dict(id="KF-C20-button-handler-reentry", property="C20", status="fixed", commit="1a287b4",
         what="a Button on_click handler polling its own button re-entered itself until RecursionError; a handler that raised left the edge to fire again", cases=[]),
    dict(id="KF-C20-map-float-zero-span", property="C20", status="fixed", commit="162517b",
         what="Utils.map(1, 1e16, 10**16 + 1, 0, 1) raised ZeroDivisionError instead of refusing the zero-width range with ValueError", cases=[]),
    dict(id="KF-C20-core-edge-values", property="C20", status="fixed", commit="043384b",
         what="Core.analog_write(pin, inf) raised OverflowError instead of clamping; pin names like '\u00b2' raised ValueError in every Core function", cases=[]),
    dict(id="KF-C19-nan-durations", property="C19", status="fixed", commit="de4520c",
         what="Led.blink(nan), RGBLed.blink(.., delay_ms=nan), DCMotor.run_for(nan, 0.5), ramp(0.5, inf) passed the '< 0' test and failed inside time.sleep() after the object had changed", cases=[]),
    dict(id="KF-C12-bom", property="C12", status="fixed", commit="52ccbed",
         what="target() failed with SyntaxError (U+FEFF) for a script saved with a UTF-8 byte-order mark, which CPython itself runs", cases=[]),
    dict(id="KF-C17-message-on-one-row", property="C17", status="fixed", commit="fa20204",
         what="lcd.message(top, bottom) on a display with rows=1 wrote the bottom text over the top text (the host skips it)", cases=[]),
    dict(id="KF-C18-negative-speed", property="C18", status="fixed", commit="af8f6e9",
         what="lcd.animate(.., speed_ms=-5) (constant or run-time) became a huge unsigned period: the animation never advanced or finished; the host clamps to 0", cases=[]),
    dict(id="KF-C16-negative-durations", property="C16", status="fixed", commit="c5ade3e",
         what="negative durations of play_tone / beep gaps / sweep wrapped around as unsigned long: the tone sounded for weeks (every sound must be bounded)", cases=[]),
    dict(id="KF-C01-loop-over-existing-variable", property="C01", status="fixed", commit="14991bf",
         what="'i = 7; for i in range(3): ...' left i at 7 after the loop, 'for n in range(n)' never ran (n < n), a helper looping over its own parameter returned the parameter's value",
         cases=[prog("C01", P + AB + "i = 7\nfor i in range(3):\n    mon.write(i)\nmon.write(i)\nn = b\nfor n in range(n):\n    mon.write(n)\nmon.write(n)\n", RUN_AB, "loop variables that already exist", space="K")]),
    dict(id="KF-C14-lcd-rebind", property="C14", status="open", commit=None,
         what="one name bound first to a parallel LCD and later to an I2C LCD (or the reverse): both libraries are requested, but the emitter keeps only the first display (one header, one object); outside the documented style, like KF-C05-rebind",
         cases=c14_rebind_cases()),
    dict(id="KF-C05-rebind", property="C05", status="open", commit=None,
         what="a Servo or Button name declared before the main loop and re-bound to another pin at the top of the loop body keeps driving/sampling the first pin (CPython uses the new object)",
         cases=[c05_case(("servo",), ("both",), ("loop",), True, 2), c05_case(("button",), ("both",), ("loop",), True, 2)]),
    dict(id="KF-C04-rgb-fade-half-rounding", property="C04", status="open", commit=None,
         what="RGBLed.fade: an interpolation point that is an exact .5 is rounded half-to-even by the host (int(round(x))) and half-away-from-zero by the firmware",
         cases=[prog("C04", PA + "rgb = RGBLed(3, 5, 6)\nrgb.fade(5, 1, 3, 10, 2)\nmon.write(\"#0\")\n", [{"passes": 0}], "fade(5,1,3,10,steps=2) from black: host (2,0,2), pins (3,1,2)", dev="rgb", oor=False, pair=None),
                prog("C04", PA + "rgb = RGBLed(3, 5, 6)\nrgb.set_color(10, 20, 30)\nmon.write(\"#0\")\nrgb.fade(0, 21, 32, 12, 4)\nmon.write(\"#1\")\n", [{"passes": 0}], "fade with steps=4 crossing x.5 points", dev="rgb", oor=False, pair=None)]),
]


def main():
    out = {"_comment": "generated by tools/build_kf.py; never written at run time. status=open: the listed cases are suppressed (KNOWN-FINDING); status=fixed: regression cases that must pass, suppress nothing.",
           "findings": FINDINGS}
    (ROOT / "known_findings.json").write_text(json.dumps(out, indent=1) + "\n")
    print("known_findings.json:", len(FINDINGS), "entries")


if __name__ == "__main__":
    main()
