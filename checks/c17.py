"""C17 — LCD text: same characters in the same cells on device and host, never off-row.

Helper layer (full geometry): one firmware per (wiring, cols, rows); its main loop reads (col, row, text
length, background) at run time and performs every (align x clear) variant of write(), line() and
message(); it is run for EVERY col in 0..cols-1, row in {0, rows-1}, len in 0..cols+2 and two backgrounds
(blank / pre-filled), and the mock display's cell matrix is compared with the host LCD.dump() after every
call; any DDRAM write outside the addressed row / beyond the width is flagged by the mock.
Program layer: all operation sequences k <= 2 (quick) / 3 over a core (thorough) over write / line /
message / clear / progress / glyph / display / backlight / brightness on 16x2 (parallel + backlight pin)
and 20x4 (I2C).  Progress layer: every (value, max_value, width) on three widths, three label kinds.
"""
from __future__ import annotations

import itertools
import json
from typing import Dict, Iterator, List, Optional, Sequence, Tuple

from rmc import evidence, observe
from rmc.device import unhex, unhex_latin1
from rmc.runner import Report
from . import common

ID = "C17"
LEVEL = "model_checking"
MOD = "checks.c17"
PRO = common.PROLOGUE + "from Reduino.Displays import LCD\n"
ALIGNS = ["left", "center", "right"]
FILL = "#" * 40


def decl(wiring: str, cols: int, rows: int, backlight: bool = False) -> str:
    if wiring == "i2c":
        return f"lcd = LCD(i2c_addr=39, cols={cols}, rows={rows})"
    bl = ", backlight_pin=10" if backlight else ""
    return f"lcd = LCD(rs=30, en=31, d4=32, d5=33, d6=34, d7=35, cols={cols}, rows={rows}{bl})"


# ------------------------------------------------------------------------------------------
# helper layer
# ------------------------------------------------------------------------------------------
def geometry_script(wiring: str, cols: int, rows: int) -> str:
    body = [
        'c = analog_read("A0")', 'r = analog_read("A1")', 'n = analog_read("A2")', 'bg = analog_read("A3")',
        't = ""', "for i in range(n):", "    t = t + str(i % 10)",
    ]

    def reset():
        return ["if bg == 1:", f'    lcd.line(r, "{FILL}")', "else:", "    lcd.clear()"]

    k = 0
    for align in ALIGNS:
        for clear in (True, False):
            body += reset() + [f'lcd.write(c, r, t, clear_row={clear}, align="{align}")', f'mon.write("w{k}")']
            k += 1
    body.append("if c == 0:")
    inner: List[str] = []
    for align in ALIGNS:
        for clear in (True, False):
            inner += reset() + [f'lcd.line(r, t, align="{align}", clear_row={clear})', f'mon.write("l{k}")']
            k += 1
    if rows >= 1:  # (on a one-row display the bottom text of message() has nowhere to go: the host skips it)
        for ta in ALIGNS:
            for ba in ALIGNS:
                for clear in (True, False):
                    inner += reset() + [f'lcd.message(t, "yz", top_align="{ta}", bottom_align="{ba}", clear_rows={clear})', f'mon.write("m{k}")']
                    k += 1
        inner += reset() + ["lcd.message(t)", f'mon.write("m{k}")', "lcd.message(bottom=t)", f'mon.write("m{k + 1}")']
    body += common.indent(inner)
    return common.script([decl(wiring, cols, rows)], body, prologue=PRO)


def geometry_runs(cols: int, rows: int) -> List[dict]:
    tuples = []
    for c in range(cols):
        for r in sorted({0, rows - 1}):
            for n in range(0, cols + 3):
                for bg in (0, 1):
                    tuples.append((c, r, n, bg))
    # one run = up to 1500 passes
    if (cols, rows) in ((16, 2), (20, 4), (8, 2), (40, 2)):
        # texts far longer than any row (length counters beyond one byte)
        for c in sorted({0, 3, cols - 1}):
            for r in sorted({0, rows - 1}):
                for n in (255, 256, 257, 256 + cols - 4, 260, 300, 512, 515):
                    for bg in (0, 1):
                        tuples.append((c, r, n, bg))
    runs = []
    for i in range(0, len(tuples), 1500):
        chunk = tuples[i : i + 1500]
        runs.append({"passes": len(chunk), "lcdquiet": 1, "maxev": 3000000,
                     "ar": {"A0": [t[0] for t in chunk], "A1": [t[1] for t in chunk], "A2": [t[2] for t in chunk], "A3": [t[3] for t in chunk]}})
    return runs


def gen_geometry(tier: str) -> Iterator[dict]:
    col_list = list(range(1, 41)) if tier == "thorough" else [1, 2, 8, 16, 20, 40]
    row_list = [1, 2, 3, 4] if tier == "thorough" else [1, 2, 4]
    for wiring in ("parallel", "i2c"):
        for cols in col_list:
            for rows in row_list:
                yield {"id": f"H:{wiring}:{cols}x{rows}", "space": "H", "src": geometry_script(wiring, cols, rows), "runs": geometry_runs(cols, rows), "geom": [cols, rows]}


# ------------------------------------------------------------------------------------------
# program layer
# ------------------------------------------------------------------------------------------
def program_ops(wiring: str) -> List[str]:
    ops = [
        'lcd.write(0, 0, "Hello")', 'lcd.write(5, 1, "World!", align="right")', 'lcd.write(3, 0, "abc", clear_row=False)', 'lcd.write(15, 1, "edge")',
        'lcd.line(0, "Top line text that is long enough")', 'lcd.line(1, "mid", align="center")', 'lcd.line(0, "", align="right")',
        'lcd.message("A", "B")', 'lcd.message(top="Only top")', 'lcd.message(bottom="B only", bottom_align="right")', 'lcd.message("TT", "BB", clear_rows=False, top_align="center")',
        "lcd.clear()", "lcd.progress(0, 25)", 'lcd.progress(1, 50, max_value=100, width=10, label="Load")', 'lcd.progress(0, 7, max_value=7, style="hash")', 'lcd.progress(1, 1, max_value=3, width=6, style="dot", label="p")',
        "lcd.glyph(0, [0, 2, 5, 8, 8, 5, 2, 0])", "lcd.glyph(7, [31, 63, 255, 0, 1, 2, 3, 4])", "lcd.display(False)", "lcd.display(True)", "lcd.backlight(False)", "lcd.backlight(True)",
    ]
    # the same power commands with run-time arguments (flag0 is False, flag1 True, lvl 100 at run time)
    ops += ["lcd.display(flag0)", "lcd.display(flag1)", "lcd.backlight(flag0)", "lcd.backlight(flag1)", "lcd.display(lvl > 500)", "lcd.backlight(not flag0)"]
    if wiring == "parallel":
        ops += ["lcd.brightness(0)", "lcd.brightness(40)", "lcd.brightness(255)", "lcd.brightness(lvl)", "lcd.brightness(lvl * 2)"]
    return ops


RT_HEAD = ['flag0 = analog_read("A0") > 5', 'flag1 = analog_read("A1") > 5', 'lvl = analog_read("A2")']
RT_INPUTS = {"A0": [0], "A1": [9], "A2": [100]}


GLYPH_ROWS = [-33, -32, -11, -1, 0, 1, 21, 31, 32, 33, 64, 228, 255, 256, 1000, True, 4]


def gen_glyphs(tier: str) -> Iterator[dict]:
    """Glyph upload: every slot x bitmaps whose rows sweep values inside and outside 0..31 (the host keeps the
    low five bits), for both wirings; the uploaded rows must equal the host's."""
    for wiring, cols, rows in (("parallel", 16, 2), ("i2c", 20, 4)):
        for slot in range(8):
            for off in range(len(GLYPH_ROWS)):
                bitmap = [GLYPH_ROWS[(off + i) % len(GLYPH_ROWS)] for i in range(8)]
                lines = [f"lcd.glyph({slot}, {bitmap})", 'mon.write("#0")', f"lcd.glyph({(slot + 3) % 8}, {bitmap[::-1]})", 'mon.write("#1")']
                d = decl(wiring, cols, rows, backlight=True)
                yield {"id": f"G:{wiring}:{slot}:{off}", "space": "O", "src": common.script([d] + lines, prologue=PRO), "runs": [{"passes": 0}], "geom": [cols, rows]}


def gen_arg_order(tier: str) -> Iterator[dict]:
    """Every LCD call with two or more numeric arguments, each argument a call of a helper that reports on the serial
    line when it is evaluated, the arguments written in every order Python accepts (first j positionally, the others as
    keywords in every permutation): the firmware evaluates them in the order written (and displays the same)."""
    defs = ["def nx(v):", "    mon.write(v)", "    return v"]
    methods = [
        ("progress", ["row", "value"], ["max_value", "width"], {"row": "nx(0)", "value": "nx(4)", "max_value": "nx(16)", "width": "nx(8)"}, ', style="hash"'),
        ("write", ["col", "row", "text"], [], {"col": "nx(2)", "row": "nx(1)", "text": '"ab"'}, ""),
        ("write", ["col", "row", "text"], ["clear_row"], {"col": "nx(2)", "row": "nx(1)", "text": '"ab"', "clear_row": "nx(0) > 1"}, ""),
        ("line", ["row", "text"], ["clear_row"], {"row": "nx(1)", "text": "str(nx(7))", "clear_row": "nx(1) > 0"}, ""),
        ("glyph", ["slot", "bitmap"], [], {"slot": "nx(2)", "bitmap": "[nx(1), 2, 4, 8, 16, 8, 4, 2]"}, ""),
        ("brightness", ["level"], [], {"level": "nx(40) + nx(2)"}, ""),
    ]
    for wiring, cols, rows in (("parallel", 16, 2),):
        for meth, positional, keyword_only, exprs, tail in methods:
            shapes = []
            for j in range(len(positional), len(positional) + 1):
                for perm in itertools.permutations(keyword_only):
                    shapes.append((positional, perm))
            # keyword spellings of the positional parameters too, where the transpiler accepts them (rejection is fine: C08)
            for perm in itertools.permutations(positional + keyword_only):
                shapes.append(([], perm))
            for pos, perm in shapes:
                parts = [exprs[p] for p in pos] + [f"{p}={exprs[p]}" for p in perm]
                lines = [f"lcd.{meth}({', '.join(parts)}{tail})", 'mon.write("#0")']
                yield {"id": f"AO:{meth}:{len(pos)}:{','.join(perm)}", "space": "O", "src": common.script(defs + [decl(wiring, cols, rows, backlight=True)] + lines, prologue=PRO), "runs": [{"passes": 0}], "geom": [cols, rows],
                       "reject_ok": True}


def gen_glyph_sequences(tier: str) -> Iterator[dict]:
    """A slot is re-defined and defined back: every sequence of length <= 3 over two bitmaps and two slots, all before the
    loop or the last upload(s) inside it; the glyph memory must hold what the host model holds after every upload."""
    a = [14, 31, 31, 31, 31, 31, 31, 31]
    b = [14, 17, 17, 17, 17, 17, 17, 31]
    uploads = [(0, a), (0, b), (1, a), (1, b)]
    for wiring, cols, rows in (("parallel", 16, 2), ("i2c", 20, 4)):
        for n in (2, 3):
            for seq in itertools.product(range(len(uploads)), repeat=n):
                for split in range(0, n + 1):
                    if split not in (n, 1):
                        continue
                    lines = []
                    for k, ui in enumerate(seq):
                        slot, bm = uploads[ui]
                        lines += [f"lcd.glyph({slot}, {bm})", f'mon.write("#{k}")']
                    d = decl(wiring, cols, rows, backlight=True)
                    setup_lines, loop_lines = lines[: 2 * split], lines[2 * split :]
                    src = common.script([d] + setup_lines, loop_lines or None, prologue=PRO) if loop_lines else common.script([d] + setup_lines, prologue=PRO)
                    yield {"id": f"GS:{wiring}:{seq}:{split}", "space": "O", "src": src, "runs": [{"passes": 2 if loop_lines else 0}], "geom": [cols, rows]}


def _spellings(word: str) -> List[str]:
    return [word, word.capitalize(), word.upper(), "".join(ch.upper() if i % 2 else ch for i, ch in enumerate(word))]


def gen_labels(tier: str) -> Iterator[dict]:
    """Label arguments (alignment, progress style) are case-insensitive on the host: every spelling of every label in
    every call that takes one, for a short and an over-long text, on a filled and an empty row."""
    forms = []
    for a in ("left", "center", "right"):
        for sp in _spellings(a):
            for text in ("ab", "abcdefghijklmnopqrstuvwxyz"):
                forms += [f'lcd.write(3, 0, "{text}", align="{sp}")', f'lcd.write(0, 1, "{text}", align="{sp}", clear_row=True)', f'lcd.line(1, "{text}", align="{sp}")',
                          f'lcd.line(0, "{text}", align="{sp}", clear_row=False)', f'lcd.line(1, "{text}", clear_row=True, align="{sp}")',
                          f'lcd.message("{text}", "q", top_align="{sp}")', f'lcd.message("q", "{text}", bottom_align="{sp}")', f'lcd.message("{text}", "{text}", bottom_align="{sp}", top_align="{sp}")']
    for st in ("block", "hash", "pipe", "dot"):
        for sp in _spellings(st):
            # value * width is a multiple of max_value in each form: the two sides must agree exactly
            forms += [f'lcd.progress(0, 3, max_value=6, width=8, style="{sp}")', f'lcd.progress(1, 5, 10, width=12, style="{sp}")', f'lcd.progress(1, 2, max_value=4, style="{sp}", label="pg")']
    for wiring, cols, rows in (("parallel", 16, 2), ("i2c", 20, 4)):
        for fi, form in enumerate(forms):
            for bg in (False, True):
                lines = ([f'lcd.line(0, "{FILL}")', f'lcd.line(1, "{FILL}")'] if bg else []) + [form, 'mon.write("#0")']
                yield {"id": f"L:{wiring}:{fi}:{int(bg)}", "space": "O", "src": common.script([decl(wiring, cols, rows)] + lines, prologue=PRO), "runs": [{"passes": 0}], "geom": [cols, rows]}


def gen_programs(tier: str) -> Iterator[dict]:
    for wiring, cols, rows in (("parallel", 16, 2), ("i2c", 20, 4)):
        ops = program_ops(wiring)
        n = len(ops)
        seqs: List[tuple] = [(i,) for i in range(n)] + list(itertools.product(range(n), repeat=2))
        power = [i for i, o in enumerate(ops) if any(w in o for w in ("display", "backlight", "brightness"))]
        seqs += list(itertools.product(power, repeat=3))
        if tier == "thorough":
            core = [0, 2, 4, 5, 7, 10, 11, 13, 16] + power[:4]
            seqs += list(itertools.product(core, repeat=3))
        seen = set()
        for seq in seqs:
            if seq in seen:
                continue
            seen.add(seq)
            lines: List[str] = []
            for k, i in enumerate(seq):
                lines += [ops[i], f'mon.write("#{k}")']
            for placement in (("setup", "loop") if len(seq) == 1 else ("setup",)):
                d = decl(wiring, cols, rows, backlight=True)
                src = common.script(RT_HEAD + [d] + lines, prologue=PRO) if placement == "setup" else common.script(RT_HEAD + [d], lines, prologue=PRO)
                yield {"id": f"O:{wiring}:{placement}:{seq}", "space": "O", "src": src, "runs": [{"passes": 0 if placement == "setup" else 2, "ar": RT_INPUTS}], "geom": [cols, rows]}


def gen_two_lcds(tier: str) -> Iterator[dict]:
    """Two displays of different wiring and size in one sketch: object / width variables must not mix."""
    ops_a = ['lcd.write(2, 0, "Hello")', 'lcd.line(1, "right", align="right")', 'lcd.message("AA", "BB", top_align="center")', "lcd.clear()", 'lcd.progress(0, 50, width=8, style="hash")', "lcd.brightness(40)", "lcd.backlight(False)"]
    ops_b = ['pan.write(1, 1, "xyz")', 'pan.line(0, "a long line of text", align="center")', 'pan.message(bottom="bb")', "pan.clear()", 'pan.progress(1, 2, max_value=4, style="dot")', "pan.glyph(3, [1, 2, 4, 8, 16, 8, 4, 2])", "pan.backlight(False)"]
    decls = ["lcd = LCD(rs=30, en=31, d4=32, d5=33, d6=34, d7=35, cols=16, rows=2, backlight_pin=10)", "pan = LCD(i2c_addr=39, cols=8, rows=2)"]
    seqs = list(itertools.product(ops_a, ops_b)) + list(itertools.product(ops_b, ops_a))
    if tier == "thorough":
        seqs += list(itertools.product(ops_a, ops_b, ops_a)) + list(itertools.product(ops_b, ops_a, ops_b))
    for idx, seq in enumerate(seqs):
        lines: List[str] = []
        for k, op in enumerate(seq):
            lines += [op, f'mon.write("#{k}")']
        for order in (decls, decls[::-1]):
            yield {"id": f"O2:{idx}:{0 if order is decls else 1}", "space": "O", "src": common.script(list(order) + lines, prologue=PRO), "runs": [{"passes": 0}], "geom": [16, 2]}


# ------------------------------------------------------------------------------------------
# progress layer
# ------------------------------------------------------------------------------------------
def progress_script(cols: int, label: Optional[str], use_width: bool) -> str:
    lab = f', label="{label}"' if label is not None else ""
    wid = ", width=w" if use_width else ""
    body = ['v = analog_read("A0") - 10', 'm = analog_read("A1") - 5', 'w = analog_read("A2") - 5',
            f'lcd.progress(0, v, max_value=m{wid}, style="hash"{lab})', 'mon.write("g")']
    return common.script([decl("parallel", cols, 2)], body, prologue=PRO)


def gen_progress(tier: str) -> Iterator[dict]:
    maxes = list(range(1, 13)) + [100]
    for cols in ((8, 16, 20) if tier != "thorough" else (1, 5, 8, 16, 20, 40)):
        for label in (None, "", "L", "A long label text"):
            for use_width in (True, False):
                tuples = []
                for m in maxes:
                    for v in range(-1, m + 2):
                        for w in (range(1, cols + 1) if use_width else [0]):
                            tuples.append((v, m, w))
                # an empty / negative range, and explicit widths outside 1..cols (clamped like the host clamps them)
                for m in (0, -2):
                    for v in (-1, 0, 1, 5):
                        for w in ((1, cols) if use_width else [0]):
                            tuples.append((v, m, w))
                if use_width:
                    for w in (0, -1, -4, cols + 1, cols + 5):
                        for m in (1, 4, 7):
                            for v in range(-1, m + 2):
                                tuples.append((v, m, w))
                runs = []
                for i in range(0, len(tuples), 3000):
                    ch = tuples[i : i + 3000]
                    runs.append({"passes": len(ch), "lcdquiet": 1, "maxev": 2000000, "ar": {"A0": [t[0] + 10 for t in ch], "A1": [t[1] + 5 for t in ch], "A2": [t[2] + 5 for t in ch]}, "tuples": ch})
                yield {"id": f"G:{cols}:{label}:{use_width}", "space": "G", "src": progress_script(cols, label, use_width), "runs": runs, "geom": [cols, 2], "label": label, "use_width": use_width}


def gen_progress_divisible(tier: str) -> Iterator[dict]:
    """Every divisible triple (value * width is a multiple of max_value) for bar widths 1..40 and max_value = width,
    2, 3 and 5 times the width: both sides must fill exactly value * width / max_value cells."""
    for cols in (40, 24):
        tuples = []
        for w in range(1, cols + 1):
            for mult in (1, 2, 3, 5):
                m = w * mult
                for v in range(0, m + 1):
                    if (v * w) % m == 0:
                        tuples.append((v, m, w))
        runs = []
        for i in range(0, len(tuples), 3000):
            ch = tuples[i : i + 3000]
            runs.append({"passes": len(ch), "lcdquiet": 1, "maxev": 2000000, "ar": {"A0": [t[0] + 10 for t in ch], "A1": [t[1] + 5 for t in ch], "A2": [t[2] + 5 for t in ch]}, "tuples": ch})
        yield {"id": f"G:div:{cols}", "space": "G", "src": progress_script(cols, None, True), "runs": runs, "geom": [cols, 2], "label": None, "use_width": True}


def progress_judge(case, run, dr, hr) -> Optional[str]:
    cols = case["geom"][0]
    dev_rows = [unhex_latin1(ev.args[1]).split("|")[0] for ev in dr.events if ev.kind == "lcd_dump" and ev.phase >= 0]
    # dumps come twice per pass (after the serial line and at the pass end): take the one after the serial line
    dev_rows = dev_rows[0::2]
    host_rows = [snap[("lcd", 0)].split("\n")[0] for kind, _, _, _, snap in hr.events if kind == "serial"]
    tuples = run["tuples"]
    if len(dev_rows) != len(tuples) or len(host_rows) != len(tuples):
        return f"harness: {len(dev_rows)} device rows / {len(host_rows)} host rows for {len(tuples)} calls"
    label = case["label"]
    last: Dict[Tuple[int, int], int] = {}
    for (v, m, w), drow, hrow in zip(tuples, dev_rows, host_rows):
        width = max(1, min(cols, w)) if case["use_width"] else cols  # (the host's own clamping of an explicit width)
        if m <= 0:
            # nothing can be filled of an empty range
            if drow.count("#") or hrow.count("#"):
                return f"progress({v}, max={m}, width={width}): an empty range must draw an empty bar; host {hrow!r}, device {drow!r}"
            continue
        prefix = (label + " ") if label else ""
        if len(drow) != cols:
            return f"device row has {len(drow)} cells"
        if drow[: len(prefix)][:cols] != prefix[:cols] or hrow[: len(prefix)][:cols] != prefix[:cols]:
            return f"progress({v}, max={m}, width={width}, label={label!r}): label part differs host {hrow!r} device {drow!r}"
        dbar, hbar = drow[len(prefix):], hrow[len(prefix):]
        dn, hn = dbar.count("#"), hbar.count("#")
        if dbar.rstrip(" ") != "#" * dn or set(dbar[dn:]) - {" "}:
            return f"progress({v}, max={m}, width={width}): device bar is not a prefix of fill characters: {drow!r}"
        visible = max(0, min(width, cols - len(prefix)))
        vc = max(0, min(m, v))
        exact = (vc * width) % m == 0
        want_exact = min(vc * width // m, visible)
        if exact and (dn != want_exact or hn != want_exact):
            return f"progress({v}, max={m}, width={width}, label={label!r}): value*width is a multiple of max so both sides must fill {want_exact} cells; host {hn}, device {dn}"
        if abs(dn - hn) > 1:
            return f"progress({v}, max={m}, width={width}): host fills {hn} cells, device {dn} (more than one cell apart)"
        if v <= 0 and dn != 0:
            return f"progress({v}, max={m}): device fills {dn} cells for a non-positive value"
        if v >= m and dn != min(width, visible):
            return f"progress({v}, max={m}, width={width}): device fills {dn} cells, saturation is {min(width, visible)}"
        key = (m, width)
        if key in last and dn < last[key][1] and v > last[key][0]:
            return f"progress not monotone: value {last[key][0]} -> {last[key][1]} cells, value {v} -> {dn} cells (max={m}, width={width})"
        last[key] = (v, dn)
    return None


# ------------------------------------------------------------------------------------------
def offrow_monitor(dr) -> Optional[str]:
    for ev in dr.events:
        if ev.kind == "lcd" and len(ev.args) > 1 and ev.args[1] == "print" and "offrow=1" in ev.args:
            return f"text written outside its row / beyond the display width: {' '.join(ev.args)} (phase {ev.phase})"
    return None


def judge(case, tr, dev_runs, host_runs):
    if tr.status in ("reject", "syntax"):
        if case.get("reject_ok"):
            return "reject", tr.error or ""
        return "violation", f"script rejected: {tr.error}"
    if tr.status != "ok":
        return "transpile_" + tr.status, tr.error or ""
    if dev_runs is None:
        return "nocompile", "; ".join(case.get("_compile_errors", []))[:300]
    for idx, (run, dr, hr) in enumerate(zip(case["runs"], dev_runs, host_runs)):
        if not dr.ok:
            return "violation", f"run {idx}: firmware did not run cleanly: {dr.faults[:2]} exit={dr.exit_code}"
        if hr.error is not None:
            return "skip_host_" + (hr.error_type or "error"), hr.error or ""
        err = offrow_monitor(dr)
        if err is None:
            if case["space"] == "G":
                err = progress_judge(case, run, dr, hr)
            else:
                err = observe.compare(observe.reduce_host(hr.events), observe.reduce_device(dr), check_lcd=True)
                if err and case["space"] == "H":
                    # decode the pass into its inputs for the report
                    import re

                    m = re.search(r"phase (\d+)", err)
                    if m:
                        p = int(m.group(1))
                        ar = run["ar"]
                        err += f" [col={ar['A0'][p]} row={ar['A1'][p]} len={ar['A2'][p]} background={'filled' if ar['A3'][p] else 'blank'}]"
        if err:
            return "violation", f"{case['geom'][0]}x{case['geom'][1]} run {idx}: {err}"
    return "match", ""


def generate(tier: str, only=None) -> Iterator[dict]:
    if not only or "O" in only:
        yield from gen_programs(tier)
        yield from gen_two_lcds(tier)
    if not only or "Y" in only:
        yield from gen_glyphs(tier)
        yield from gen_glyph_sequences(tier)
        yield from gen_arg_order(tier)
        yield from gen_labels(tier)
    if not only or "G" in only:
        yield from gen_progress(tier)
        yield from gen_progress_divisible(tier)
    if not only or "H" in only:
        yield from gen_geometry(tier)


def main(tier: str, seed: int, only=None) -> int:
    report = Report(ID, LEVEL, tier, seed)
    cases = list(generate(tier, only))
    calls = 0
    for c in cases:
        for r in c["runs"]:
            calls += max(1, r.get("passes", 0))
    big = [c for c in cases if c["space"] in ("H", "G")]
    small = [c for c in cases if c["space"] == "O"]
    common.drive(report, MOD, small, opts={"host_timeout": 20.0}, batch_size=40, bad=("violation", "nocompile", "transpile_crash", "transpile_timeout"))
    common.drive(report, MOD, sorted(big, key=lambda c: -sum(r["passes"] for r in c["runs"])), opts={"host_timeout": 120.0}, batch_size=1,
                 bad=("violation", "nocompile", "transpile_crash", "transpile_timeout"), include_witnesses=False)
    report.transitions = calls
    report.traces_validated = calls
    report.extra_cov["loop_passes_compared"] = calls
    report.bounds = {"geometry": "cols in {1,2,8,16,20,40} x rows in {1,2,4} (quick) / cols 1..40 x rows 1..4 (thorough), both wirings; every col, row in {0,last}, len 0..cols+2, blank/filled background, 6 write + 6 line + 20 message variants",
                     "programs": "all op sequences k<=2 over 22-25 ops + all triples of power ops (quick); + triples over a 13-op core (thorough); 16x2 parallel with backlight pin and 20x4 I2C",
                     "progress": "value -1..max+1, max in 1..12 and 100, width 1..cols or default, label none/short/long, cols in {8,16,20} (quick)"}
    report.add_sample({"geometry_script_head": geometry_script("parallel", 8, 2).splitlines()[7:22]})
    report.add_sample({"program": "lcd.backlight(False); lcd.brightness(40); lcd.backlight(True)"})
    return report.finish(
        rule="every (col,row,len,align,clear,background) of the stated geometry grid and every program sequence is executed on the mock display and on the host LCD; cell matrices compared after every call; out-of-row writes flagged by the DDRAM model; transitions = LCD calls compared",
        assumptions=evidence.COMMON_ASSUMPTIONS + ["HD44780 DDRAM model of the mock LiquidCrystal classes (row offsets 0x00/0x40/cols/0x40+cols, two-line address counter)", "ASCII text only; max_value >= 1 and width in 1..cols for progress"],
    )


def replay(path: str) -> int:
    return common.replay_program(ID, MOD, path, opts={"host_timeout": 120.0}, bad=("violation", "nocompile"))
