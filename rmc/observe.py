"""Observation function shared by the differential checks (DESIGN.md §1.3).

Both the firmware trace and the CPython trace are reduced to a list of *observations*:
    ('serial', value, snapshot)   one per serial line
    ('delay', ms, snapshot)       one per non-zero wait; snapshot = levels held during the wait
    ('endphase', k, snapshot)     end of setup (k = -1) and of every loop() pass
A value difference of any size is a difference; a print-format difference is not.
"""
from __future__ import annotations

import math
import re
from typing import Any, Dict, List, Optional, Sequence, Tuple

from .device import DeviceRun, unhex, unhex_latin1

_NUM = r"[-+]?(?:\d+\.?\d*|\.\d+)(?:[eE][-+]?\d+)?"
_HOST_TOKEN = re.compile(r"(True|False|" + _NUM + ")")
_DEV_TOKEN = re.compile(r"(" + _NUM + ")")

FLOAT_ABS_TOL = 0.00501
FLOAT_REL_TOL = 2e-5


def _num_close(host: float, dev: float) -> bool:
    if math.isnan(host) or math.isnan(dev):
        return math.isnan(host) and math.isnan(dev)
    return abs(host - dev) <= FLOAT_ABS_TOL + FLOAT_REL_TOL * abs(host)


def _split(text: str, pattern: re.Pattern) -> Tuple[List[str], List[str]]:
    parts = pattern.split(text)
    return parts[0::2], parts[1::2]


def host_text(value: Any) -> str:
    return f"{value}"


def serial_equal(host_value: Any, dev_text: str) -> bool:
    """N(): numeric tokens compare as numbers, True/False equal 1/0, everything else is literal."""
    if isinstance(host_value, bool):
        try:
            return float(dev_text) == (1.0 if host_value else 0.0)
        except ValueError:
            return False
    if isinstance(host_value, int):
        try:
            return abs(float(dev_text) - host_value) < 0.005
        except ValueError:
            return False
    if isinstance(host_value, float):
        try:
            return _num_close(host_value, float(dev_text))
        except ValueError:
            return False
    text = host_text(host_value)
    if text == dev_text:
        return True
    h_lit, h_num = _split(text, _HOST_TOKEN)
    d_lit, d_num = _split(dev_text, _DEV_TOKEN)
    if h_lit != d_lit or len(h_num) != len(d_num):
        return False
    for h, d in zip(h_num, d_num):
        hv = 1.0 if h == "True" else 0.0 if h == "False" else float(h)
        if "." in h or "e" in h.lower() or "." in d:
            if not _num_close(hv, float(d)):
                return False
        elif hv != float(d):
            return False
    return True


# ----------------------------------------------------------------------------------------------
# device reduction
# ----------------------------------------------------------------------------------------------
class DeviceState:
    def __init__(self) -> None:
        self.latch: Dict[int, int] = {}
        self.servo: Dict[int, Tuple[str, int]] = {}
        self.lcd: Dict[int, str] = {}
        self.tone: Dict[int, Optional[int]] = {}
        self.modes: Dict[int, str] = {}
        self.glyphs: Dict[int, Dict[int, tuple]] = {}
        self.lcd_backlight: Dict[int, bool] = {}
        self.lcd_display: Dict[int, bool] = {}

    def copy(self) -> "DeviceState":
        other = DeviceState()
        other.latch = dict(self.latch)
        other.servo = dict(self.servo)
        other.lcd = dict(self.lcd)
        other.tone = dict(self.tone)
        other.modes = dict(self.modes)
        other.glyphs = {k: dict(v) for k, v in self.glyphs.items()}
        other.lcd_backlight = dict(self.lcd_backlight)
        other.lcd_display = dict(self.lcd_display)
        return other


def reduce_device(run: DeviceRun) -> List[tuple]:
    """Device events -> observations (kind, payload, DeviceState copy, phase)."""
    obs: List[list] = []
    st = DeviceState()
    attach = False  # lcd_dump lines directly after a serial/heap event belong to that observation
    for ev in run.events:
        k = ev.kind
        a = ev.args
        if k == "lcd_dump":
            st.lcd[int(a[0])] = unhex_latin1(a[1]) if len(a) > 1 else ""
            if attach and obs:
                obs[-1][2].lcd[int(a[0])] = st.lcd[int(a[0])]
            continue
        attach = False
        if k == "dw":
            st.latch[int(a[0])] = 255 if int(a[1]) else 0
        elif k == "aw":
            st.latch[int(a[0])] = int(a[1])
        elif k == "servo_write":
            st.servo[int(a[1])] = ("deg", int(a[2]))
        elif k == "servo_us":
            st.servo[int(a[1])] = ("us", int(a[2]))
        elif k == "pinMode":
            st.modes[int(a[0])] = a[1]
        elif k == "tone":
            st.tone[int(a[0])] = int(a[1])
        elif k == "notone":
            st.tone[int(a[0])] = None
        elif k == "lcd":
            lid = int(a[0])
            if a[1] == "createChar":
                st.glyphs.setdefault(lid, {})[int(a[2])] = tuple(int(x) for x in a[3:11])
            elif a[1] in ("backlight", "init"):
                st.lcd_backlight[lid] = True
            elif a[1] == "noBacklight":
                st.lcd_backlight[lid] = False
            elif a[1] in ("display", "begin"):
                st.lcd_display[lid] = True
            elif a[1] == "noDisplay":
                st.lcd_display[lid] = False
        elif k == "delay":
            ms = int(a[0])
            if ms > 0:
                obs.append(["delay", float(ms), st.copy(), ev.phase])
        elif k == "serial":
            snap = st.copy()
            snap.lcd = {}
            obs.append(["serial", unhex(a[0]) if a else "", snap, ev.phase])
            attach = True
        elif k == "heap":
            snap = st.copy()
            snap.lcd = {}
            obs.append(["endphase", ev.phase, snap, ev.phase])
            attach = True
    return [tuple(o) for o in obs]


def reduce_host(events: Sequence[tuple]) -> List[tuple]:
    obs: List[tuple] = []
    for kind, in_pass, clock, payload, snap in events:
        if kind == "delay":
            if payload[0] > 0:
                obs.append(("delay", float(payload[0]), snap, in_pass))
        elif kind == "serial":
            obs.append(("serial", payload[0], snap, in_pass))
        elif kind == "endpass":
            obs.append(("endphase", payload[0], snap, in_pass))
    return obs


# ----------------------------------------------------------------------------------------------
# snapshot comparison
# ----------------------------------------------------------------------------------------------
def _lcd_norm(text: str) -> str:
    return text.replace("█", "\xff")


def snapshot_diff(host_snap: Dict[Any, Any], dev: DeviceState, *, check_lcd: bool = True) -> Optional[str]:
    for key, hv in host_snap.items():
        tag = key[0]
        if tag == "pin":
            pin = key[1]
            if not isinstance(pin, int):
                continue
            dv = dev.latch.get(pin, 0)
            if int(hv) != int(dv):
                return f"pin {pin}: host level {hv}, device level {dv}"
        elif tag == "servo":
            pin = key[1]
            angle, pulse = hv
            cmd = dev.servo.get(pin)
            if cmd is None:
                return f"servo on pin {pin}: device never commanded it"
            kind, value = cmd
            want = angle if kind == "deg" else pulse
            if abs(value - want) > 0.5 + 1e-3 * max(1.0, abs(want)):
                return f"servo pin {pin}: device {kind}={value}, host angle={angle} pulse={pulse}"
        elif tag == "motor":
            _, in1, in2, en = key
            applied, mode = hv
            want_pwm = abs(applied) * 255.0
            pwm = dev.latch.get(en, 0)
            d1 = 1 if dev.latch.get(in1, 0) else 0
            d2 = 1 if dev.latch.get(in2, 0) else 0
            if abs(pwm - want_pwm) > 1.0 + 1e-6:
                return f"motor enable pin {en}: device duty {pwm}, host applied speed {applied}"
            if pwm == 0:
                if want_pwm > 1.0:
                    return f"motor off on device, host applied speed {applied}"
                if mode == "brake" and (d1, d2) != (1, 1):
                    return f"motor: host brake, device direction pins {(d1, d2)}"
                if mode == "coast" and (d1, d2) != (0, 0):
                    return f"motor: host coast, device direction pins {(d1, d2)}"
            else:
                want_dir = (1, 0) if applied > 0 else (0, 1)
                if (d1, d2) != want_dir:
                    return f"motor: host applied {applied}, device direction pins {(d1, d2)}"
        elif tag == "glyphs" and check_lcd:
            idx = key[1]
            got = dev.glyphs.get(idx, {})
            for slot, rows in hv.items():
                if tuple(got.get(slot, ())) != tuple(rows):
                    return f"lcd {idx} glyph slot {slot}: host rows {list(rows)}, device uploaded {list(got.get(slot, ()))}"
        elif tag == "lcdbl" and check_lcd:
            idx = key[1]
            if idx in dev.lcd_backlight and dev.lcd_backlight[idx] != bool(hv):
                return f"lcd {idx} (I2C) backlight: host {'on' if hv else 'off'}, device {'on' if dev.lcd_backlight[idx] else 'off'}"
        elif tag == "lcd" and check_lcd:
            idx = key[1]
            if idx in dev.lcd:
                if _lcd_norm(hv).replace("\n", "|") != dev.lcd[idx]:
                    return f"lcd {idx}: host {hv!r} device {dev.lcd[idx]!r}"
    return None


def _segments(obs: Sequence[tuple]) -> List[list]:
    segs: List[list] = []
    for o in obs:
        segs.append([o[2], o[1], 1])
    return segs


def compare(host_obs: Sequence[tuple], dev_obs: Sequence[tuple], *, check_lcd: bool = True, check_snap: bool = True) -> Optional[str]:
    """Return None if the two observation lists agree, else a description of the first divergence."""
    i = j = 0
    nh, nd = len(host_obs), len(dev_obs)

    def sync_kind(o):
        return o[0] != "delay"

    while i < nh or j < nd:
        # collect delay runs up to the next sync point on both sides
        hi = i
        while hi < nh and host_obs[hi][0] == "delay":
            hi += 1
        dj = j
        while dj < nd and dev_obs[dj][0] == "delay":
            dj += 1
        err = _compare_delays(host_obs[i:hi], dev_obs[j:dj], check_snap, check_lcd)
        if err:
            return f"before sync point #{_count_sync(host_obs, hi)}: {err}"
        i, j = hi, dj
        if i >= nh and j >= nd:
            break
        if i >= nh:
            return f"device has extra {dev_obs[j][0]} {dev_obs[j][1]!r} (phase {dev_obs[j][3]})"
        if j >= nd:
            return f"device trace ends; host continues with {host_obs[i][0]} {host_obs[i][1]!r} (phase {host_obs[i][3]})"
        h, d = host_obs[i], dev_obs[j]
        if h[0] != d[0]:
            return f"host {h[0]} {h[1]!r} (phase {h[3]}) vs device {d[0]} {d[1]!r} (phase {d[3]})"
        if h[0] == "serial":
            if h[3] != d[3]:
                return f"serial line {h[1]!r}: host in phase {h[3]}, device in phase {d[3]}"
            if not serial_equal(h[1], d[1]):
                return f"serial line differs in phase {h[3]}: host {h[1]!r} device {d[1]!r}"
        elif h[0] == "endphase":
            if h[1] != d[1]:
                return f"phase end mismatch host {h[1]} device {d[1]}"
        if check_snap:
            err = snapshot_diff(h[2], d[2], check_lcd=check_lcd)
            if err:
                return f"at {h[0]} {h[1]!r} (phase {h[3]}): {err}"
        i += 1
        j += 1
    return None


def _count_sync(obs, upto):
    return sum(1 for o in obs[:upto] if o[0] != "delay")


def _compare_delays(hs: Sequence[tuple], ds: Sequence[tuple], check_snap: bool, check_lcd: bool) -> Optional[str]:
    """Timed level functions between two sync points: same levels held for the same time, up to
    < 1 ms of rounding per delay."""
    i = j = 0
    while i < len(hs) or j < len(ds):
        if i < len(hs) and j < len(ds):
            h, d = hs[i], ds[j]
            same = (not check_snap) or snapshot_diff(h[2], d[2], check_lcd=False) is None
            if same and abs(h[1] - d[1]) < 1.0 + 1e-6:
                i += 1
                j += 1
                continue
        if i < len(hs) and hs[i][1] < 1.0:
            i += 1  # a sub-millisecond wait may round to nothing on the device
            continue
        if i < len(hs) and j < len(ds):
            h, d = hs[i], ds[j]
            snap_err = snapshot_diff(h[2], d[2], check_lcd=False) if check_snap else None
            if snap_err:
                return f"during a wait (host {h[1]} ms / device {d[1]} ms, phase {h[3]}): {snap_err}"
            return f"wait differs: host {h[1]} ms, device {d[1]} ms (phase {h[3]})"
        if i < len(hs):
            return f"host waits {hs[i][1]} ms (phase {hs[i][3]}), device does not"
        return f"device waits {ds[j][1]} ms (phase {ds[j][3]}), host does not"
    return None
