"""C10 — transpilation is a deterministic, stateless function of the source text.

(1) Iteration order as an owned choice: parser.py and emitter.py of the working tree are loaded through
    an AST rewrite that turns every set construction / set operation result into a ChoiceSet whose
    iteration order is decided by the explorer.  Default order = sorted; a deviation = any other
    permutation at one iteration point.  ALL executions with <= 1 deviation (quick) / <= 2 (thorough)
    are run for every corpus script; the emitted text must be byte-identical.
(2) Histories: BFS over sequences of parse()/emit() calls (depth <= 2 over the corpus, plus emit twice
    on one Program and interleaved parse/emit); every output must equal the fresh-process output and the
    deep fingerprint of all module-level state must not change.
(3) Schedules: a second transpilation is run re-entrantly at every call boundary (quick) / every traced
    line (thorough) of the first; both outputs must equal the sequential ones.
(4) Real PYTHONHASHSEED subprocesses replay (1) outside the harness.
"""
from __future__ import annotations

import ast
import hashlib
import itertools
import json
import os
import subprocess
import sys
import types
from pathlib import Path
from typing import Any, Dict, List, Optional, Sequence, Tuple

from rmc import explore
from rmc.runner import Report

ID = "C10"
LEVEL = "model_checking"

IMPORTS = (
    "from Reduino import target\n"
    'target("COM3")\n'
    "from Reduino.Actuators import Led, RGBLed, Servo, DCMotor, Buzzer\n"
    "from Reduino.Sensors import Button, Potentiometer, Ultrasonic\n"
    "from Reduino.Displays import LCD\n"
    "from Reduino.Communication import SerialMonitor\n"
    "from Reduino.Core import analog_read\n"
    "from Reduino.Utils import sleep\n"
    "mon = SerialMonitor(9600)\n"
)

CORPUS: Dict[str, str] = {
    "branches": IMPORTS + "a = analog_read(\"A0\")\nif a > 3:\n    zeta = 1\n    alpha = 2.5\n    mid = \"s\"\nelse:\n    alpha = 1.5\n    beta = 7\n    zeta = 0\nmon.write(alpha)\nmon.write(zeta)\n",
    "loops": IMPORTS + "a = analog_read(\"A0\")\nfor i in range(3):\n    q = i\n    try:\n        w = q + 1\n        e = w * 2\n    except Exception:\n        r = 0\nk = 0\nwhile k < 2:\n    k += 1\n    try:\n        t1 = k\n        t0 = k + 1\n    except Exception:\n        t2 = 5\nmon.write(k)\n",
    "try": IMPORTS + "try:\n    one = 1\n    two = 2\n    three = 3\nexcept Exception:\n    four = 4\n    five = 5\nmon.write(one)\n",
    "ultrasonics": IMPORTS + "front = Ultrasonic(2, 3)\nrear = Ultrasonic(4, 5)\nleft = Ultrasonic(6, 7)\nright = Ultrasonic(8, 9)\nwhile True:\n    mon.write(right.measure_distance())\n    mon.write(front.measure_distance())\n    mon.write(left.measure_distance())\n    mon.write(rear.measure_distance())\n",
    "ultrasonics_rewired": IMPORTS + "front = Ultrasonic(22, 23)\nrear = Ultrasonic(24, 25, sensor=\"HC-SR04\")\nled = Led(13)\nwhile True:\n    if front.measure_distance() < rear.measure_distance():\n        led.on()\n",
    "renamed_devices": IMPORTS + "led = Led(5)\nsv = RGBLed(9, 10, 11)\nm = Servo(6)\nbz = DCMotor(2, 3, 4)\nrgb = Buzzer(8)\npot = Button(7)\npanel = LCD(i2c_addr=39)\nwhile True:\n    led.toggle()\n    sv.on(1, 2, 3)\n    m.write(10)\n    bz.set_speed(0.5)\n    rgb.play_tone(440)\n    panel.line(0, \"x\")\n    if pot.is_pressed():\n        led.off()\n",
    "buttons_lcds": IMPORTS + "def hit():\n    mon.write(1)\nokb = Button(2, on_click=hit)\ncancel = Button(3)\nmenu = Button(4)\npanel = LCD(rs=12, en=11, d4=5, d5=6, d6=7, d7=8)\naux = LCD(i2c_addr=39)\nzed = LCD(i2c_addr=38, cols=20, rows=4)\npanel.animate(\"scroll\", 0, \"hello\")\nzed.animate(\"blink\", 1, \"x\")\naux.animate(\"bounce\", 0, \"yo\", loop=True)\nwhile True:\n    if menu.is_pressed():\n        mon.write(cancel.is_pressed())\n",
    "functions": IMPORTS + "def add(p, q):\n    return p + q\ndef scale(v):\n    t = v * 1.5\n    return t\ndef both(v):\n    return add(v, 1) + scale(v)\nx = add(1, 2)\ny = add(1.5, 2)\nz = both(3)\nmon.write(x)\nmon.write(y)\nmon.write(z)\n",
    "swap": IMPORTS + "a = 1\nb = 2\na, b = b, a\nwhile True:\n    a, b = b, a + b\n    c, d = a, b\n    mon.write(a)\n",
    "lists": IMPORTS + "items = [1, 2, 3]\nitems.append(4)\nn = len(items)\nsq = [i * i for i in range(4)]\nwhile True:\n    items.append(n)\n    mon.write(items[-1])\n    mon.write(len(sq))\n",
    "devices": IMPORTS + "led = Led(13)\nrgb = RGBLed(9, 10, 11)\nsv = Servo(5)\nm = DCMotor(2, 3, 6)\nbz = Buzzer(8)\npot = Potentiometer(\"A1\")\nwhile True:\n    led.toggle()\n    rgb.fade(1, 2, 3, 100, 4)\n    sv.write(pot.read() / 6)\n    m.ramp(0.5, 100)\n    bz.melody(\"siren\")\n    sleep(10)\n",
    "nested": IMPORTS + "a = analog_read(\"A0\")\nwhile True:\n    if a > 1:\n        for i in range(2):\n            inner = i\n            if inner > 0:\n                deep = inner\n                other = 3\n    else:\n        alt = 2\n    mon.write(a)\n",
    # a script so deeply nested that it is rejected: the verdict may not depend on what was transpiled (and rejected) before
    "deep_sum": IMPORTS + "def big(v):\n    return " + " + ".join(["v"] * 2000) + "\nmon.write(big(1))\n",
    "deep_sum_mid": IMPORTS + "def big(v):\n    return " + " + ".join(["v"] * 300) + "\nmon.write(big(1))\n",
    # literals that compare equal but are written differently: each script keeps its own spelling
    "zeros_pos": IMPORTS + "m = DCMotor(2, 3, 4)\nbz = Buzzer(8)\nsv = Servo(9, min_angle=0.0, max_angle=90.0)\nm.set_speed(0.0)\nbz.play_tone(440.0, 1.0)\nsleep(1)\nled = Led(5)\nled.set_brightness(1)\n",
    "zeros_neg": IMPORTS + "m = DCMotor(2, 3, 4)\nbz = Buzzer(8)\nsv = Servo(9, min_angle=-0.0, max_angle=90)\nm.set_speed(-0.0)\nbz.play_tone(440, 1)\nsleep(1.0)\nled = Led(5)\nled.set_brightness(True)\n",
    "shadow_builtins": IMPORTS + "def sum(v):\n    return v\ndef len(v):\n    return 3\ndef divmod(p, q):\n    return p\ndef hash(p, q):\n    return q\ndef ord(v):\n    return v\na = analog_read(\"A0\")\nmon.write(sum(a) + len(a) + divmod(a, 1) + hash(a, 2) + ord(a))\n",
    "range_limits": IMPORTS + "a = analog_read(\"A0\")\nitems = [a, 2]\nn = a\nfor i in range(abs(a - 5)):\n    mon.write(i)\nfor j in range(len(items)):\n    items.append(j)\nfor k in range(min(a, 3)):\n    k += 1\n    mon.write(k)\nfor m in range(n):\n    n = n - 1\nwhile True:\n    for step in range(max(a, 2)):\n        step = step * 2\n        mon.write(step)\n",
    "list_returns": IMPORTS + "def ramp(fine):\n    if fine > 2:\n        return [0.25, 0.5, 0.75]\n    return [1, 2, 3]\ndef names(k):\n    if k > 1:\n        return [1, 2]\n    if k > 0:\n        return [1.5]\n    return [True]\nr = ramp(1)\nmon.write(r[0])\nq = names(2)\nmon.write(q[0])\n",
    # a script that is REJECTED while a helper variant is being generated, and a valid one with the same helper name / types
    "rejected_mid_variant": IMPORTS + "def show(v):\n    mon.write(scale(v))\ndef scale(x, gain=0.5):\n    return x * gain\nshow(3)\n",
    "rejected_in_helper": IMPORTS + "def show(v):\n    return scale(v) + 1\ndef scale(x):\n    y = x / 2\n    lambda_ = lambda q: q\n    return y\nmon.write(show(3))\n",
    "forward_scale": IMPORTS + "def show(v):\n    t = scale(v)\n    mon.write(t)\n    return t\ndef scale(x):\n    return x / 2 + 0.25\nshow(3)\nmon.write(show(5) * 2)\n",
    "case_names": IMPORTS + "a = analog_read(\"A0\")\nif a > 3:\n    t = 1\n    T = 2\n    Kp = 3\n    kp = 4\n    KP = 5\nelse:\n    KP = 0\n    kp = 1\n    Kp = 2\n    T = 3\n    t = 4\nfor i in range(2):\n    x = i\n    X = i + 1\nmon.write(t + T + Kp + kp + KP + x + X)\n",
    "mixed_returns": IMPORTS + "def pick(v):\n    if v > 3:\n        return 1\n    if v > 2:\n        return 2.5\n    if v > 1:\n        return True\n    return 0\ndef lab(v):\n    if v:\n        return \"a\"\n    return \"b\"\nmon.write(pick(2))\nmon.write(lab(1))\n",
    "helper_globals": IMPORTS + "def seta():\n    global ga, gb, gc\n    ga = 1\n    gb = 2.5\n    gc = \"s\"\ndef setb():\n    global gd, ga\n    gd = 4\n    ga = 5\nseta()\nsetb()\nzz, yy = 1, 2\nzz, xx = 3, 4\nwhile True:\n    mon.write(ga)\n    gd = gd + 1\n",
    "globals_only": IMPORTS + "count = 0\nname = \"x\"\nratio = 0.5\nflag = True\n",
    "empty": IMPORTS,
}


# ------------------------------------------------------------------------------------------
# (1) ChoiceSet harness
# ------------------------------------------------------------------------------------------
class Scheduler:
    """Decides the iteration order at every ChoiceSet iteration point."""

    def __init__(self, deviations: Dict[int, int]):
        self.deviations = deviations  # point index -> permutation index (>= 1)
        self.points: List[int] = []  # size of the set at each point

    def order(self, items: List[Any]) -> List[Any]:
        base = sorted(items, key=repr)
        if len(base) < 2:
            return base
        idx = len(self.points)
        self.points.append(len(base))
        k = self.deviations.get(idx, 0)
        if k == 0:
            return base
        if len(base) > 5:
            # beyond 5 elements only rotations and the reversal are explored (stated bound)
            alts = [base[i:] + base[:i] for i in range(1, len(base))] + [base[::-1]]
            return alts[(k - 1) % len(alts)]
        perms = list(itertools.permutations(base))
        return list(perms[k % len(perms)])


SCHED: Optional[Scheduler] = None


def alt_count(size: int) -> int:
    if size > 5:
        return size
    n = 1
    for i in range(2, size + 1):
        n *= i
    return n - 1


class ChoiceSet(set):
    def __iter__(self):
        items = list(set.__iter__(self))
        if SCHED is None:
            return iter(sorted(items, key=repr))
        return iter(SCHED.order(items))

    def pop(self):
        for item in self:
            set.discard(self, item)
            return item
        raise KeyError("pop from an empty set")

    def copy(self):
        return ChoiceSet(set.__iter__(self))

    def _wrap(self, result):
        return ChoiceSet(set.__iter__(result)) if isinstance(result, (set, frozenset)) else result

    def union(self, *o):
        return self._wrap(set.union(self, *o))

    def intersection(self, *o):
        return self._wrap(set.intersection(self, *o))

    def difference(self, *o):
        return self._wrap(set.difference(self, *o))

    def symmetric_difference(self, o):
        return self._wrap(set.symmetric_difference(self, o))


def _cs(iterable=()):
    return ChoiceSet(iterable)


_OPS = {"Sub": lambda a, b: a - b, "BitAnd": lambda a, b: a & b, "BitOr": lambda a, b: a | b, "BitXor": lambda a, b: a ^ b}


def _setop(name, left, right):
    result = _OPS[name](left, right)
    if type(result) in (set, frozenset):
        return ChoiceSet(result)
    return result


class _Rewriter(ast.NodeTransformer):
    def __init__(self):
        self.sites = 0

    def visit_Call(self, node: ast.Call):
        self.generic_visit(node)
        if isinstance(node.func, ast.Name) and node.func.id in ("set", "frozenset"):
            self.sites += 1
            node.func = ast.Name(id="__redu_cs", ctx=ast.Load())
        return node

    def visit_Set(self, node: ast.Set):
        self.generic_visit(node)
        self.sites += 1
        return ast.copy_location(ast.Call(func=ast.Name(id="__redu_cs", ctx=ast.Load()), args=[ast.List(elts=node.elts, ctx=ast.Load())], keywords=[]), node)

    def visit_SetComp(self, node: ast.SetComp):
        self.generic_visit(node)
        self.sites += 1
        lc = ast.ListComp(elt=node.elt, generators=node.generators)
        return ast.copy_location(ast.Call(func=ast.Name(id="__redu_cs", ctx=ast.Load()), args=[lc], keywords=[]), node)

    def visit_BinOp(self, node: ast.BinOp):
        self.generic_visit(node)
        opname = type(node.op).__name__
        if opname in _OPS:
            return ast.copy_location(ast.Call(func=ast.Name(id="__redu_setop", ctx=ast.Load()), args=[ast.Constant(opname), node.left, node.right], keywords=[]), node)
        return node


def _src_root() -> Path:
    import Reduino

    return Path(Reduino.__file__).resolve().parent


def load_rewritten() -> Tuple[types.ModuleType, types.ModuleType, int]:
    root = _src_root()
    mods = {}
    sites = 0
    for name in ("parser", "emitter"):
        path = root / "transpile" / f"{name}.py"
        tree = ast.parse(path.read_text(encoding="utf-8"))
        rw = _Rewriter()
        tree = rw.visit(tree)
        ast.fix_missing_locations(tree)
        sites += rw.sites
        mod = types.ModuleType(f"Reduino.transpile.__redu_cs_{name}")
        mod.__package__ = "Reduino.transpile"
        mod.__file__ = str(path)
        mod.__dict__["__redu_cs"] = _cs
        mod.__dict__["__redu_setop"] = _setop
        exec(compile(tree, str(path), "exec"), mod.__dict__)  # noqa: S102 - loading the project's own module
        mods[name] = mod
    return mods["parser"], mods["emitter"], sites


def run_with(parser_mod, emitter_mod, src: str, deviations: Dict[int, int]) -> Tuple[str, List[int]]:
    global SCHED
    SCHED = Scheduler(deviations)
    try:
        try:
            text = emitter_mod.emit(parser_mod.parse(src))
        except Exception as exc:  # noqa: BLE001
            text = f"<<{type(exc).__name__}: {exc}>>"
        return text, list(SCHED.points)
    finally:
        SCHED = None


def explore_orders(report: Report, tier: str) -> dict:
    parser_mod, emitter_mod, sites = load_rewritten()
    bound = 2 if tier == "thorough" else 1
    stats = {"rewrite_sites": sites, "scripts": {}, "executions": 0, "choice_points": 0}
    # sanity: the rewritten modules must reproduce the real transpiler in the default order
    from Reduino.transpile.emitter import emit
    from Reduino.transpile.parser import parse

    for name, src in CORPUS.items():
        if name.startswith("deep_"):
            continue  # the deeply nested scripts take part in the history exploration only
        base, points = run_with(parser_mod, emitter_mod, src, {})
        try:
            real = emit(parse(src))
        except Exception as exc:  # noqa: BLE001 - a rejected corpus script: the rejection is the output
            real = f"<<{type(exc).__name__}: {exc}>>"
        if base != real:
            report.harness_errors.append(f"rewritten modules disagree with the real transpiler on corpus script {name!r}")
            continue
        execs = 1
        outputs = {hashlib.sha256(base.encode()).hexdigest()}
        devs: List[Dict[int, int]] = []
        for i, size in enumerate(points):
            for k in range(1, alt_count(size) + 1):
                devs.append({i: k})
        if bound >= 2:
            for (i, si), (j, sj) in itertools.combinations(list(enumerate(points)), 2):
                for ki in range(1, min(alt_count(si), 5) + 1):
                    for kj in range(1, min(alt_count(sj), 5) + 1):
                        devs.append({i: ki, j: kj})
        for dev in devs:
            text, pts = run_with(parser_mod, emitter_mod, src, dev)
            execs += 1
            report.transitions += 1
            digest = hashlib.sha256(text.encode()).hexdigest()
            outputs.add(digest)
            if text != base:
                key = explore.history_key(ID, "order:" + name, [("dev", tuple(sorted(dev.items())), {})])
                first = next((a for a, b in zip(base.splitlines(), text.splitlines()) if a != b), "")
                report.violation(key, f"script {name!r}: iterating set #{sorted(dev)} (sizes {points}) in a non-default order changes the emitted text (first differing line of the default output: {first!r})",
                                 {"subject": "order", "script": name, "src": src, "deviations": {str(k): v for k, v in dev.items()}})
                break
        stats["scripts"][name] = {"choice_points": len(points), "sizes": points, "executions": execs, "distinct_outputs": len(outputs)}
        stats["executions"] += execs
        stats["choice_points"] += len(points)
        report.states.update((name, o) for o in outputs)
        report.distinct.update((name, i) for i in range(execs))
    report.evaluations += stats["executions"]
    report.traces_validated += stats["executions"]
    report.add_sample({"part": "orders", "script": "branches", "choice_points": stats["scripts"].get("branches", {})})
    return stats


# ------------------------------------------------------------------------------------------
# (2) histories
# ------------------------------------------------------------------------------------------
_FRESH_SNIPPET = r"""
import sys, json, hashlib
sys.path.insert(0, sys.argv[1])
from Reduino.transpile.parser import parse
from Reduino.transpile.emitter import emit
corpus = json.load(open(sys.argv[2]))
name = sys.argv[3]
try:
    out = emit(parse(corpus[name]))
except Exception as exc:
    out = "<<%s: %s>>" % (type(exc).__name__, exc)
sys.stdout.write(out)
"""


def fresh_outputs(names: Sequence[str], seed: Optional[str] = None) -> Dict[str, str]:
    root = _src_root().parent
    build = Path(__file__).resolve().parent.parent / "build"
    build.mkdir(exist_ok=True)
    corpus_file = build / f"c10-corpus-{os.getpid()}.json"
    corpus_file.write_text(json.dumps(CORPUS))
    out = {}
    env = dict(os.environ)
    if seed is not None:
        env["PYTHONHASHSEED"] = seed
    try:
        procs = {n: subprocess.Popen([sys.executable, "-c", _FRESH_SNIPPET, str(root), str(corpus_file), n], stdout=subprocess.PIPE, env=env) for n in names}
        for n, p in procs.items():
            out[n] = p.communicate()[0].decode("utf-8")
    finally:
        corpus_file.unlink(missing_ok=True)
    return out


def _fingerprint(obj, depth=0, seen=None) -> Any:
    if seen is None:
        seen = set()
    if isinstance(obj, (str, int, float, bool, type(None), bytes)):
        return obj
    if id(obj) in seen or depth > 6:
        return "<cycle>"
    seen.add(id(obj))
    if isinstance(obj, dict):
        return ("dict", tuple(sorted((repr(k), repr(_fingerprint(v, depth + 1, seen))) for k, v in obj.items())))
    if isinstance(obj, (list, tuple)):
        return (type(obj).__name__, tuple(repr(_fingerprint(v, depth + 1, seen)) for v in obj))
    if isinstance(obj, (set, frozenset)):
        return ("set", tuple(sorted(repr(_fingerprint(v, depth + 1, seen)) for v in obj)))
    if hasattr(obj, "__next__") and hasattr(obj, "__reduce__"):
        try:
            return ("iterator", repr(obj.__reduce__()[1:]))  # itertools.count & friends expose their position
        except Exception:  # noqa: BLE001
            return ("iterator", type(obj).__name__)
    return ("obj", type(obj).__name__)


def module_state() -> str:
    import Reduino
    import Reduino.transpile.ast as A
    import Reduino.transpile.emitter as E
    import Reduino.transpile.parser as P

    import os
    import sys

    # interpreter-wide settings a transpilation could leave behind count as state too
    parts = [("sys", "recursionlimit", sys.getrecursionlimit()), ("sys", "path", tuple(sys.path)), ("os", "cwd", os.getcwd()), ("os", "environ", hash(frozenset(os.environ.items())))]
    for mod in (P, E, A, Reduino):
        for name, value in sorted(vars(mod).items()):
            if hasattr(value, "cache_info") and callable(getattr(value, "cache_info", None)):
                parts.append((mod.__name__, name, "cache:%d" % value.cache_info().currsize))  # a memo that fills up is state
                continue
            if name.startswith("__") or isinstance(value, (types.ModuleType, types.FunctionType, type)) or callable(value) and not hasattr(value, "__next__"):
                continue
            if hasattr(value, "pattern") and hasattr(value, "match"):
                continue
            parts.append((mod.__name__, name, repr(_fingerprint(value))))
    return hashlib.sha256(repr(parts).encode()).hexdigest()


def explore_histories(report: Report, tier: str) -> dict:
    from Reduino.transpile.emitter import emit
    from Reduino.transpile.parser import parse

    names = list(CORPUS)
    fresh = fresh_outputs(names)
    state0 = module_state()
    n = 0

    def t(name):
        try:
            return emit(parse(CORPUS[name]))
        except Exception as exc:  # noqa: BLE001
            return f"<<{type(exc).__name__}: {exc}>>"

    def bad(kind, hist, msg):
        key = explore.history_key(ID, "history", [(kind, tuple(hist), {})])
        report.violation(key, f"history {kind} {hist}: {msg}", {"subject": "history", "kind": kind, "history": list(hist)})

    depth = 3 if tier == "thorough" else 2
    hist_space = names if tier == "thorough" else names
    for length in range(1, depth + 1):
        seqs = itertools.product(hist_space, repeat=length) if length <= 2 else itertools.product(names[:5], repeat=3)
        for hist in seqs:
            n += 1
            report.transitions += 1
            outs = [t(x) for x in hist]
            last = hist[-1]
            if outs[-1] != fresh[last]:
                bad("transpile", hist, f"output for {last!r} after this history differs from its fresh-process output")
                continue
            if module_state() != state0:
                bad("transpile", hist, "module-level state of the transpiler changed")
                state0 = module_state()
    # emit() twice / thrice on the same Program; interleaved parse/emit
    for a in names:
        n += 1
        if fresh[a].startswith("<<"):
            continue  # rejected scripts have no Program to emit twice
        try:
            prog = parse(CORPUS[a])
        except Exception as exc:  # noqa: BLE001
            bad("emit-repeat", [a], f"parse() raised {type(exc).__name__}: {exc} for a script a fresh process accepts")
            continue
        first = emit(prog)
        second = emit(prog)
        third = emit(prog)
        if not (first == second == third == fresh[a]):
            bad("emit-repeat", [a], "emit() of the same Program is not idempotent / differs from the fresh output")
        for b in names[:6]:
            n += 1
            if fresh[b].startswith("<<"):
                continue
            try:
                pa = parse(CORPUS[a])
                pb = parse(CORPUS[b])
            except Exception as exc:  # noqa: BLE001
                bad("interleave", [a, b], f"parse() raised {type(exc).__name__}: {exc} for scripts a fresh process accepts")
                continue
            ea, eb = emit(pa), emit(pb)
            if ea != fresh[a] or eb != fresh[b]:
                bad("interleave", [a, b], "parse A, parse B, emit A, emit B differs from the fresh outputs")
            pb2 = parse(CORPUS[b])
            pa2 = parse(CORPUS[a])
            eb2, ea2 = emit(pb2), emit(pa2)
            if ea2 != fresh[a] or eb2 != fresh[b]:
                bad("interleave", [b, a], "parse B, parse A, emit B, emit A differs from the fresh outputs")
    if module_state() != state0:
        bad("final", [], "module-level state changed during the history exploration")
    report.evaluations += n
    report.traces_validated += n
    report.add_sample({"part": "histories", "history": ["swap", "swap"], "oracle": "output == fresh-process output"})
    return {"histories": n, "depth": depth}


# ------------------------------------------------------------------------------------------
# (3) schedules: re-entrant interleaving at every call boundary / line
# ------------------------------------------------------------------------------------------
def _trace_files():
    import Reduino.transpile.emitter as E
    import Reduino.transpile.parser as P

    return {P.__file__, E.__file__}


def _count_points(a: str, granularity: str) -> int:
    from Reduino.transpile.emitter import emit
    from Reduino.transpile.parser import parse

    files = _trace_files()
    counter = {"n": 0}

    def count_tracer(frame, event, arg):
        if frame.f_code.co_filename in files:
            if event == granularity or (granularity == "line" and event == "call"):
                counter["n"] += 1
            return count_tracer if granularity == "line" else None
        return None

    sys.settrace(count_tracer)
    try:
        emit(parse(CORPUS[a]))
    finally:
        sys.settrace(None)
    return counter["n"]


def _schedule_chunk(args) -> Optional[int]:
    """Run transpile(A) with a re-entrant transpile(B) at every preemption point k in [lo, hi); returns the first
    k at which an output changes (None if none does)."""
    a, b, granularity, lo, hi = args
    from Reduino.transpile.emitter import emit
    from Reduino.transpile.parser import parse

    files = _trace_files()
    seq_a, seq_b = emit(parse(CORPUS[a])), emit(parse(CORPUS[b]))
    for k in range(lo, hi):
        state = {"n": 0, "inner": None}

        def tracer(frame, event, arg):
            if frame.f_code.co_filename in files:
                if event == granularity or (granularity == "line" and event == "call"):
                    if state["n"] == k and state["inner"] is None:
                        sys.settrace(None)
                        try:
                            state["inner"] = emit(parse(CORPUS[b]))
                        finally:
                            sys.settrace(tracer)
                    state["n"] += 1
                return tracer if granularity == "line" else None
            return None

        sys.settrace(tracer)
        try:
            outer = emit(parse(CORPUS[a]))
        finally:
            sys.settrace(None)
        if outer != seq_a or state["inner"] != seq_b:
            return k
    return None


def explore_schedules(report: Report, tier: str) -> dict:
    from rmc import pipeline

    pairs = [("swap", "functions"), ("branches", "loops")] if tier != "thorough" else [("swap", "functions"), ("branches", "loops"), ("lists", "swap"), ("functions", "functions"), ("range_limits", "shadow_builtins"), ("helper_globals", "list_returns")]
    granularity = "line" if tier == "thorough" else "call"
    total_points = 0
    for a, b in pairs:
        points = _count_points(a, granularity)
        total_points += points
        size = max(1, points // 64)
        chunks = [(a, b, granularity, lo, min(points, lo + size)) for lo in range(0, points, size)]
        results = pipeline.pool().imap(_schedule_chunk, chunks) if pipeline.WORKERS > 1 and len(chunks) > 1 else map(_schedule_chunk, chunks)
        report.transitions += points
        for k in results:
            if k is not None:
                key = explore.history_key(ID, "schedule", [("preempt", (a, b, k), {})])
                report.violation(key, f"transpiling {b!r} re-entrantly at {granularity} #{k} of transpiling {a!r} changes an output", {"subject": "schedule", "a": a, "b": b, "point": k, "granularity": granularity})
                break
    report.evaluations += total_points
    report.traces_validated += total_points
    return {"pairs": pairs, "granularity": granularity, "preemption_points": total_points}


def real_seeds(report: Report, tier: str) -> dict:
    names = list(CORPUS)
    seeds = [str(i) for i in range(16 if tier == "thorough" else 6)]
    base = fresh_outputs(names, seeds[0])
    for s in seeds[1:]:
        out = fresh_outputs(names, s)
        for n in names:
            if out[n] != base[n]:
                key = explore.history_key(ID, "hashseed", [("seed", (n, s), {})])
                report.violation(key, f"script {n!r}: PYTHONHASHSEED={s} and PYTHONHASHSEED={seeds[0]} give different firmware text", {"subject": "hashseed", "script": n, "seed": s})
    report.evaluations += len(seeds) * len(names)
    return {"seeds": seeds}


def main(tier: str, seed: int, only=None) -> int:
    report = Report(ID, LEVEL, tier, seed)
    stats = {}
    # the module-level state right after import, before this process has transpiled anything
    pristine = module_state()
    for part, fn in (("orders", explore_orders), ("histories", explore_histories), ("schedules", explore_schedules), ("seeds", real_seeds)):
        if only and part not in only:
            continue
        try:
            stats["hashseeds" if part == "seeds" else part] = fn(report, tier)
        except Exception as exc:  # noqa: BLE001 - the transpiler itself raised something other than a rejection during this part
            import traceback

            where = traceback.extract_tb(exc.__traceback__)[-1]
            key = explore.history_key(ID, "history", [("raised", (part, type(exc).__name__), {})])
            report.violation(key, f"{part}: the transpiler raised {type(exc).__name__}: {exc} ({where.filename.split('/')[-1]}:{where.lineno}) for a corpus script that a fresh process transpiles",
                             {"subject": "history", "kind": "raised", "history": [], "part": part})
    if module_state() != pristine:
        key = explore.history_key(ID, "history", [("pristine", ("all",), {})])
        report.violation(key, "history pristine: the module-level state of the transpiler after the run differs from its state right after import (something is remembered between transpilations)",
                         {"subject": "history", "kind": "pristine", "history": []})
    report.extra_cov["parts"] = stats
    report.bounds = {"deviations": "<= 1 non-default set iteration order per execution (quick) / <= 2 (thorough); all permutations for sets of <= 5 elements, rotations + reversal beyond",
                     "histories": "all call sequences of length <= 2 over 12 corpus scripts (thorough: + length 3 over 5)", "schedules": "re-entrant second transpilation at every call boundary (quick) / every line (thorough)"}
    return report.finish(
        rule="stateless exploration with deviation bounding over set-iteration choice points; BFS over parse/emit call histories; one preemption at every point of a second transpilation; oracle = byte equality with the default / fresh-process output",
        assumptions=["set iteration order is the only hash-seed dependent behaviour of CPython relevant here (dicts are insertion ordered)", "the AST rewrite wraps set()/frozenset() calls, set literals/comprehensions and the results of - & | ^ when they are sets"],
    )


def replay(path: str) -> int:
    data = json.loads(open(path).read())
    report = Report(ID, LEVEL, "thorough", 0)
    subject = data.get("subject")
    if subject == "order":
        parser_mod, emitter_mod, _ = load_rewritten()
        base, _ = run_with(parser_mod, emitter_mod, data["src"], {})
        dev = {int(k): v for k, v in data["deviations"].items()}
        t1, _ = run_with(parser_mod, emitter_mod, data["src"], dev)
        t2, _ = run_with(parser_mod, emitter_mod, data["src"], dev)
        if t1 != t2:
            print("REPLAY-DIVERGENCE")
            return 2
        if t1 != base:
            print(f"VIOLATION property={ID} replay={path}")
            return 1
        print("replay: holds")
        return 0
    {"history": explore_histories, "schedule": explore_schedules, "hashseed": real_seeds}[subject](report, "thorough")
    if any(v["key"] == data.get("key") for v in report.violations) or report.violations:
        print(f"VIOLATION property={ID} replay={path}")
        return 1
    print("replay: holds")
    return 0
