#!/bin/bash
# usage: tools/seed_sweep.sh [seed names...]  -- for every kept seed: apply to /repo, run the checks named in its
# meta.json (quick tier), undo.  Prints one line per seed: DETECTED / MISSED / APPLY-FAILED.
cd /verif
names="$@"; [ -z "$names" ] && names=$(ls seeded)
for n in $names; do
  d=seeded/$n
  checks=$(python3 -c "import json;m=json.load(open('$d/meta.json'));print(' '.join(sorted({c.split()[-1] for c in m.get('checked_with',[])})))")
  git -C /repo diff --quiet || { echo "/repo dirty"; exit 9; }
  if ! git -C /repo apply "/verif/$d/patch.diff" 2>/dev/null; then echo "$n APPLY-FAILED"; continue; fi
  res=""
  for c in $checks; do
    out=$(timeout 900 ./check $c 2>&1 | tail -1)
    if echo "$out" | grep -q "FAIL"; then res="$res $c:DETECTED"; else res="$res $c:missed"; fi
  done
  git -C /repo checkout -- .
  echo "$n$res"
done
