"""Child interpreter for C11: transpiles the inputs it receives on stdin under an audit hook."""
import json
import os
import resource
import sys
import time
from pathlib import Path

ROOT = Path(__file__).resolve().parent.parent
sys.path.insert(0, str(ROOT))
sys.path.insert(0, os.environ.get("REDUINO_SRC") or "/repo/src")

mem = int(os.environ.get("VERIF_SANDBOX_MEM_MB", "2048")) * 1024 * 1024
resource.setrlimit(resource.RLIMIT_AS, (mem, mem))

from Reduino.transpile.emitter import emit  # noqa: E402
from Reduino.transpile.parser import parse  # noqa: E402
from checks.c10 import module_state  # noqa: E402

# an importable package whose name merely starts with "Reduino": importing it (even as the parent of a dotted name
# handed to importlib) runs its __init__, which writes the canary
_CANARY_PKG = ROOT / "build" / "c11-path"
(_CANARY_PKG / "Reduino_boards").mkdir(parents=True, exist_ok=True)
(_CANARY_PKG / "Reduino_boards" / "__init__.py").write_text("open('/verif/build/c11-canary', 'w').write('imported')\n")
(_CANARY_PKG / "Reduino_boards" / "uno.py").write_text("LED_PIN = 13\n")
sys.path.append(str(_CANARY_PKG))


def interpreter_state():
    """Process-wide settings a transpilation has no business changing (whether it succeeds or fails)."""
    import decimal
    import locale
    import threading
    import warnings

    umask = os.umask(0)
    os.umask(umask)
    return (
        sys.getrecursionlimit(), sys.get_int_max_str_digits(), sys.getswitchinterval(), os.getcwd(), tuple(sorted(os.environ.items())), tuple(sys.path), sys.gettrace() is None,
        sys.getprofile() is None, len(warnings.filters), decimal.getcontext().prec, locale.getlocale(), umask, threading.active_count(), sys.stdout is sys.__stdout__, sys.stderr is sys.__stderr__,
        sys.excepthook is sys.__excepthook__, getattr(sys, "tracebacklimit", None), sys.dont_write_bytecode,
    )



ISTATE0 = interpreter_state()  # before anything has been transpiled in this process (the warm-up included)

WARM = (
    "from Reduino.Actuators import Led\nfrom Reduino.Utils import sleep\nled = Led(13)\nx = [1, 2]\nx.append(3)\n"
    "def f(a):\n    return a + 1\ntry:\n    y = f(2)\nexcept Exception:\n    y = 0\nwhile True:\n    led.toggle()\n    sleep(f\"{y}\" == \"3\")\n"
)
for text in (WARM, "x = (", "x = 1 +\n"):
    try:
        emit(parse(text))
    except Exception:  # noqa: BLE001
        pass

import sysconfig  # noqa: E402

# Codecs are loaded lazily by the interpreter itself (e.g. "unicode_escape" the first time an f-string with an
# escape is unparsed): an import / open / exec of a module under <stdlib>/encodings is interpreter machinery,
# not an effect of the input.  Everything else (any other import, any exec of a code object that does not
# come from there) is reported.
CODEC_DIR = os.path.join(sysconfig.get_paths()["stdlib"], "encodings") + os.sep
for _codec in ("unicode_escape", "raw_unicode_escape", "latin_1", "ascii", "utf_8", "utf_16", "utf_32", "idna", "punycode"):
    try:
        "x".encode(_codec)
    except Exception:  # noqa: BLE001
        pass

EVENTS = []
ACTIVE = False
SUSPICIOUS_PREFIX = ("os.", "subprocess.", "socket.", "shutil.", "ctypes.", "winreg.", "urllib.", "http.", "ftplib.", "smtplib.", "webbrowser.", "pty.", "glob.", "tempfile.", "mmap.", "signal.", "syslog.", "fcntl.", "resource.", "sqlite3.")


def hook(event, args):
    if not ACTIVE:
        return
    if event == "open":
        path = args[0] if args else None
        if path in ("<unknown>", "<string>", "<fstring>"):
            return
        if isinstance(path, str) and path.startswith(CODEC_DIR):
            return
        EVENTS.append(f"open:{path}")
    elif event == "exec":
        code = args[0] if args else None
        if getattr(code, "co_filename", "").startswith(CODEC_DIR):
            return
        EVENTS.append("exec")
    elif event == "import":
        name = str(args[0]) if args else "?"
        if name.startswith("encodings."):
            return
        EVENTS.append(f"import:{name}")
    elif event.startswith(SUSPICIOUS_PREFIX):
        EVENTS.append(event)



sys.addaudithook(hook)
STATE0 = module_state()

def _result_digest(src):
    """What transpiling ``src`` yields, as plain data (firmware text and the Program's build directive)."""
    try:
        prog = parse(src)
        return ("ok", repr(getattr(prog, "target_port", None)), emit(prog))
    except Exception as exc:  # noqa: BLE001
        return (type(exc).__name__, str(exc)[:200], "")


for line in sys.stdin:
    case = json.loads(line)
    src = case["src"]
    EVENTS.clear()
    t0 = time.time()
    c0 = time.process_time()
    ACTIVE = True
    try:
        try:
            out = emit(parse(src))
            outcome, detail = "text", ""
            if not isinstance(out, str):
                outcome, detail = "crash", f"emit returned {type(out).__name__}"
        except ValueError as exc:
            outcome, detail = ("ValueError" if type(exc) is ValueError or isinstance(exc, ValueError) else "crash"), f"{type(exc).__name__}: {exc}"[:160]
        except SyntaxError as exc:
            outcome, detail = "SyntaxError", str(exc)[:160]
        except BaseException as exc:  # noqa: BLE001
            outcome, detail = "crash", f"{type(exc).__name__}: {exc}"[:200]
    finally:
        ACTIVE = False
    wall = time.time() - t0
    cpu = time.process_time() - c0
    state_changed = False
    st = module_state()
    if st != STATE0:
        state_changed = True
        STATE0 = st
    env_dependent = ""
    if case.get("env_probe"):
        # the result must not depend on the host: same text under two different environments / working directories
        saved_env, saved_cwd = dict(os.environ), os.getcwd()
        try:
            first = _result_digest(src)
            for key, value in (("HOME", "/nonexistent-home-b"), ("USERPROFILE", "C:\\\\nobody"), ("USER", "someone"), ("LOGNAME", "someone"), ("TMPDIR", "/nonexistent-tmp"), ("TEMP", "T:\\\\t")):
                os.environ[key] = value
            os.chdir("/")
            second = _result_digest(src)
            if first != second:
                env_dependent = f"{first[:2]} vs {second[:2]}"
        finally:
            os.environ.clear()
            os.environ.update(saved_env)
            os.chdir(saved_cwd)
    ist = interpreter_state()
    if ist != ISTATE0:
        changed = [i for i, (x, y) in enumerate(zip(ist, ISTATE0)) if x != y]
        env_dependent = (env_dependent + " " if env_dependent else "") + f"interpreter-wide state changed (fields {changed}; e.g. recursion limit {ISTATE0[0]} -> {ist[0]})"
        sys.setrecursionlimit(ISTATE0[0])
        ISTATE0 = interpreter_state()
    rec = {"id": case.get("id"), "outcome": outcome, "detail": detail, "wall": round(wall, 4), "cpu": round(cpu, 4), "events": EVENTS[:6], "state_changed": state_changed, "env_dependent": env_dependent}
    sys.stdout.write(json.dumps(rec) + "\n")
    sys.stdout.flush()
