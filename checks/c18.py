"""C18 — LCD animations never block, stay inside their row, finish unless looping.

Host: explicit-state BFS to fixpoint on real LCD objects for every style x text length 0..cols+2 x cols
1..8 (quick 1..6) x loop x speed in {0, 1, 100}; transitions = tick(now) with now advancing by
{0, speed-1, speed, speed+1, 3*speed}; invariants in every state and on every transition.
Device: one firmware per (style, text, cols, loop, speed); the environment owns millis(): the clock
advance before every loop() pass is a choice point with default "on time"; all tick schedules with <= 2
deviations (early / late / no advance) over a horizon of 2*len + 3*cols + 12 passes, and ALL schedules for
cols <= 3, len <= 3 over a horizon of 5 (quick) / 7 (thorough); plus two animations on one display / two displays and a main
loop that `continue`s.  Oracle: no delay, one tick per live animation per pass before user code, frames
confined to the row (other rows untouched), bounded termination / liveness, rate limit.  (Frame contents are
not compared with the host: the property does not ask for equal frames.)
"""
from __future__ import annotations

import copy
import itertools
import json
from typing import Any, Dict, Iterator, List, Optional, Sequence, Tuple

from rmc import evidence, explore, observe
from rmc.device import unhex
from rmc.explore import Explorer, StepResult
from rmc.runner import Report
from . import common

ID = "C18"
LEVEL = "model_checking"
MOD = "checks.c18"
PRO = common.PROLOGUE + "from Reduino.Displays import LCD\n"
STYLES = ["scroll", "blink", "typewriter", "bounce"]
ALPHA = "abcdefghijklmnopqrstuvwxyz"


def bound_steps(length: int, cols: int) -> int:
    return 2 * length + 3 * cols + 4


# ------------------------------------------------------------------------------------------
# host BFS
# ------------------------------------------------------------------------------------------
def host_space(style: str, length: int, cols: int, loop: bool, speed: int):
    from Reduino.Displays import LCD

    text = ALPHA[:length]
    filler = "Z" * cols

    def make():
        lcd = LCD(i2c_addr=39, cols=cols, rows=2)
        lcd.line(1, filler)
        lcd.animate(style, 0, text, speed_ms=speed, loop=loop)
        return lcd

    deltas = sorted({0, max(0, speed - 1), speed, speed + 1, 3 * speed, 1})
    ops = [("tick", (d,), {}) for d in deltas]

    def anim(lcd):
        return next(iter(lcd.animations.values()))

    def canon(lcd):
        st = anim(lcd)
        return (st.offset, st.active, st.direction, st.visible, st.show, min(st.cycles, 2), lcd.buffer[0], lcd.buffer[1])

    # aux = (now, last_step_time, steps_done, since_last clamp)
    def aux_init():
        return (0, 0, 0)

    def apply(lcd, op):
        # the explorer passes the delta; the absolute time lives in the aux component (patched in check_step)
        return StepResult(None, None, [])

    return text, make, ops, canon, anim, deltas


def _host_config(cfg) -> dict:
    """BFS to fixpoint for one (style, length, cols, loop, speed); the state carries its own clock."""
    from collections import deque

    style, length, cols, loop, speed = cfg
    text, make, ops, canon, anim, deltas = host_space(style, length, cols, loop, speed)
    subject = f"host:{style}:len{length}:cols{cols}:loop{int(loop)}:speed{speed}"
    init = make()

    def key_of(lcd, now):
        st = anim(lcd)
        since = min(now - st.last_tick, speed + 1) if st.last_tick else -1
        return (canon(lcd), since, now == 0)

    seen = {key_of(init, 0): []}
    reached = [(init, 0, [])]
    frontier = deque([(init, 0, 0, 0)])  # lcd, now, last_step_time, steps
    trans = 0
    violation = None
    while frontier and violation is None:
        lcd, now, last_step, steps = frontier.popleft()
        hist = seen[key_of(lcd, now)]
        for d in deltas:
            nxt = copy.deepcopy(lcd)
            t = now + d
            before = (canon(nxt), anim(nxt).last_tick)
            was_active = anim(nxt).active
            trans += 1
            err = None
            try:
                nxt.tick(t)
            except Exception as exc:  # noqa: BLE001
                err = f"tick({t}) raised {type(exc).__name__}: {exc}"
            after = (canon(nxt), anim(nxt).last_tick)
            stepped = after != before
            nsteps = steps + (1 if stepped else 0)
            nlast = t if stepped else last_step
            if err is None:
                if len(nxt.buffer[0]) != cols or len(nxt.buffer[1]) != cols:
                    err = f"row width changed: {nxt.buffer!r}"
                elif nxt.buffer[1] != "Z" * cols:
                    err = f"animation on row 0 modified row 1: {nxt.buffer[1]!r}"
                elif stepped and not was_active:
                    err = "an inactive animation stepped"
                elif stepped and speed > 0 and last_step > 0 and t - last_step < speed:
                    err = f"two steps {t - last_step} ms apart (speed_ms={speed}) at t={last_step} and t={t}"
                elif loop and not anim(nxt).active and length > 0:
                    err = "a looping animation became inactive"
                elif not loop and anim(nxt).active and nsteps > bound_steps(length, cols):
                    err = f"non-looping animation still active after {nsteps} steps (bound {bound_steps(length, cols)})"
            if err is not None:
                violation = {"subject": subject, "deltas": hist + [d], "message": err,
                             "config": {"style": style, "length": length, "cols": cols, "loop": loop, "speed": speed}}
                break
            k = key_of(nxt, t)
            if k not in seen:
                seen[k] = hist + [d]
                frontier.append((nxt, t, nlast, nsteps))
                reached.append((nxt, t, hist + [d]))
    # termination does not depend on frames changing: from EVERY reachable state a non-looping animation is
    # inactive after at most bound_steps on-time ticks
    if violation is None and not loop:
        step = max(speed, 1)
        for lcd0, t0, hist in reached:
            if not anim(lcd0).active:
                continue
            probe = copy.deepcopy(lcd0)
            t = t0
            for _ in range(bound_steps(length, cols) + 2):
                t += step
                probe.tick(t)
                trans += 1
                if not anim(probe).active:
                    break
            else:
                violation = {"subject": subject, "deltas": hist + [step] * (bound_steps(length, cols) + 2),
                             "message": f"non-looping animation still active after {bound_steps(length, cols) + 2} on-time ticks from a reachable state",
                             "config": {"style": style, "length": length, "cols": cols, "loop": loop, "speed": speed}}
                break
    return {"subject": subject, "states": len(seen), "transitions": trans, "violation": violation}


# -- several animations on one host display: histories of animate() calls interleaved with ticks ----------------
MULTI_MENU = [("blink", 0, "ab", False), ("scroll", 1, "abcdef", True), ("scroll", 1, "xy", False), ("typewriter", 0, "abc", False), ("bounce", 1, "q", True), ("blink", 0, "zz", True),
              ("typewriter", 0, "", True), ("scroll", 0, "", False)]
MULTI_BOUND = max(bound_steps(len(m[2]), 4) for m in MULTI_MENU) + 2


def _host_multi(args) -> dict:
    """All histories of depth <= bound over {animate(one of 6), tick(+100), tick(+30)} on a 4x2 display (at most three
    animate calls per history).  A looping animation, once started, stays registered, active and keeps advancing on
    due ticks, whatever is started or finishes around it; ticks never raise; rows keep their width."""
    from collections import deque

    from Reduino.Displays import LCD

    first, depth = args
    ops = [("a", i) for i in range(len(MULTI_MENU))] + [("t", 100), ("t", 30)]
    violation = None
    visited = 0

    def build(hist):
        lcd = LCD(i2c_addr=39, cols=4, rows=2)
        now = 0
        looping = {}  # key -> text
        for kind, arg in hist:
            if kind == "a":
                style, row, text, loop = MULTI_MENU[arg]
                before = set(lcd.animations)
                lcd.animate(style, row, text, speed_ms=100, loop=loop)
                new = [k for k in lcd.animations if k not in before]
                # a (re)started animation may reuse a key: whatever it replaced is no longer expected to run
                for k in list(looping):
                    stk = lcd.animations.get(k)
                    if stk is not None and k not in new and loop and (stk.animation, stk.row) == (style, row) and looping[k] == text:
                        del looping[k]  # the identical looping animation was requested again
                if loop:
                    mine = new or [k for k, v in lcd.animations.items() if (v.animation, v.row, v.text, v.loop) == (style, row, text, True) and v.active]
                    if not mine:
                        return lcd, now, looping, "a looping animate() request is not registered as an active animation"
                    looping[mine[-1]] = text
            else:
                now += arg
                lcd.tick(now)
        return lcd, now, looping, None

    frontier = deque([[("a", first)]])
    while frontier and violation is None:
        hist = frontier.popleft()
        visited += 1
        try:
            lcd, now, looping, err = build(hist)
        except Exception as exc:  # noqa: BLE001
            err, lcd, looping = f"raised {type(exc).__name__}: {exc}", None, {}
        if err is None:
            if any(len(r) != 4 for r in lcd.buffer):
                err = f"row width changed: {lcd.buffer!r}"
            for key, text in looping.items():
                st = lcd.animations.get(key)
                if st is None or st.text != text or not st.loop:
                    err = f"the looping animation registered as {key!r} ({text!r}) was dropped or replaced"
                elif not st.active:
                    err = f"the looping animation {key!r} became inactive"
            if err is None and looping:
                # liveness: three on-time ticks change something in every looping animation's state
                probe = copy.deepcopy(lcd)
                snap = {k: (probe.animations[k].offset, probe.animations[k].show, probe.animations[k].visible, probe.animations[k].direction, probe.animations[k].cycles) for k in looping}
                t = now
                moved = set()
                for _ in range(3):
                    t += 100
                    probe.tick(t)
                    for k in looping:
                        stp = probe.animations.get(k)
                        if stp is None or (stp.offset, stp.show, stp.visible, stp.direction, stp.cycles) != snap[k]:
                            moved.add(k)
                stuck = [k for k in looping if k not in moved and len(looping[k]) > 0]
                if stuck:
                    err = f"looping animation(s) {stuck} do not advance on three on-time ticks"
            if err is None and any(st.active and not st.loop for st in lcd.animations.values()):
                # termination: whatever else runs on the display, every non-looping animation is finished after
                # a bounded number of on-time ticks
                probe = copy.deepcopy(lcd)
                t = now
                for _ in range(MULTI_BOUND):
                    t += 100
                    probe.tick(t)
                left = [k for k, st in probe.animations.items() if st.active and not st.loop]
                if left:
                    err = f"non-looping animation(s) {left} still active after {MULTI_BOUND} on-time ticks"
        if err is not None:
            violation = {"subject": f"host-multi:{first}", "history": [list(h) for h in hist], "message": err}
            break
        if len(hist) < depth:
            n_anim = sum(1 for k, _ in hist if k == "a")
            for op in ops:
                if op[0] == "a" and n_anim >= 3:
                    continue
                frontier.append(hist + [op])
    return {"subject": f"host-multi:{first}", "histories": visited, "violation": violation}


def host_multi(report: Report, tier: str) -> dict:
    from rmc import pipeline

    depth = 7 if tier == "thorough" else 6
    jobs = [(i, depth) for i in range(len(MULTI_MENU))]
    results = pipeline.pool().imap_unordered(_host_multi, jobs) if pipeline.WORKERS > 1 else map(_host_multi, jobs)
    total = 0
    for res in results:
        total += res["histories"]
        v = res["violation"]
        if v:
            key = explore.history_key(ID, v["subject"], [("hist", tuple(map(tuple, v["history"])), {})])
            report.violation(key, f"{v['subject']}: history {v['history']}: {v['message']}", v)
    report.transitions += total
    report.evaluations += total
    report.traces_validated += total
    return {"histories": total, "depth": depth, "menu": len(MULTI_MENU)}


def host_configs(tier: str) -> List[tuple]:
    max_cols = 8 if tier == "thorough" else 6
    return [(style, length, cols, loop, speed) for style in STYLES for cols in range(1, max_cols + 1) for length in range(0, cols + 3)
            for loop in (False, True) for speed in (0, 1, 100)]


def host_bfs(report: Report, tier: str, only_subject: Optional[str] = None) -> dict:
    from rmc import pipeline

    cfgs = host_configs(tier)
    results = pipeline.pool().imap_unordered(_host_config, cfgs, chunksize=8) if pipeline.WORKERS > 1 else map(_host_config, cfgs)
    total_states = total_trans = 0
    for res in results:
        total_states += res["states"]
        total_trans += res["transitions"]
        v = res["violation"]
        if v:
            key = explore.history_key(ID, v["subject"], [("ticks", tuple(v["deltas"]), {})])
            report.violation(key, f"{v['subject']}: tick deltas {v['deltas']}: {v['message']}", v)
        report.distinct.add(res["subject"])
        if len(report.samples) < 2 and ":len3:cols4:" in res["subject"]:
            report.add_sample({"host_config": res["subject"], "states": res["states"]})
    for i in range(total_states):
        report.states.add(("h", i))
    report.transitions += total_trans
    report.traces_validated += total_trans
    report.evaluations += total_trans
    return {"configs": len(cfgs), "states": total_states, "transitions": total_trans, "fixpoint": True}


# ------------------------------------------------------------------------------------------
# device
# ------------------------------------------------------------------------------------------
def anim_script(style: str, text: str, cols: int, rows: int, loop: bool, speed: int, wiring: str = "i2c", extra: Sequence[str] = (), body: Sequence[str] = ()) -> str:
    decl = f"lcd = LCD(i2c_addr=39, cols={cols}, rows={rows})" if wiring == "i2c" else f"lcd = LCD(rs=30, en=31, d4=32, d5=33, d6=34, d7=35, cols={cols}, rows={rows})"
    setup = [decl]
    if rows > 1:
        setup.append(f'lcd.line(1, "{"Z" * cols}")')
    setup.append(f'lcd.animate("{style}", 0, "{text}", speed_ms={speed}, loop={loop})')
    setup += list(extra)
    return common.script(setup, list(body) or ['mon.write("u")'], prologue=PRO)


def schedules(horizon: int, speed: int, bound: int, full: bool) -> Iterator[List[int]]:
    default = max(speed, 1)
    alts = [max(0, speed - 1), 3 * max(speed, 1), 0]
    alts = [a for a in dict.fromkeys(alts) if a != default]
    if full:
        for combo in itertools.product([default] + alts, repeat=horizon):
            yield list(combo)
        return
    yield [default] * horizon
    for n_dev in range(1, bound + 1):
        for positions in itertools.combinations(range(horizon), n_dev):
            for choice in itertools.product(alts, repeat=n_dev):
                s = [default] * horizon
                for p, c in zip(positions, choice):
                    s[p] = c
                yield s


def gen_device(tier: str) -> Iterator[dict]:
    dev_bound = 2 if tier == "thorough" else 1
    geoms = [(2, 1), (3, 2), (4, 2), (6, 2)] if tier == "thorough" else [(2, 1), (3, 2), (5, 2)]
    for style in STYLES:
        for cols, rows in geoms:
            for length in sorted({0, 1, cols - 1, cols, cols + 2}):
                if length < 0:
                    continue
                text = ALPHA[:length]
                for loop in (False, True):
                    for speed in (0, 100):
                        horizon = 2 * length + 3 * cols + 12
                        full = cols <= 3 and length <= 3 and speed > 0
                        runs = []
                        if full:
                            for s in schedules(7 if tier == "thorough" else 5, speed, 0, True):
                                runs.append({"passes": len(s), "adv": s, "t0": 0})
                        for t0 in (0, 777):
                            for s in schedules(horizon, speed, dev_bound if speed else 0, False):
                                runs.append({"passes": len(s), "adv": s, "t0": t0})
                        if speed:
                            # timestamps just below the top of the unsigned long range (still positive and increasing: the
                            # counter would roll over <margin> ms AFTER the last pass): on-time ticks and ticks that come
                            # twice too early, ending on an early tick
                            for margin in (1, 10, 49):
                                runs.append({"passes": horizon, "adv": [speed] * horizon, "t0": 0, "wrap": speed * horizon + margin})
                                for n_half in (2 * horizon, 2 * horizon + 1, 4, 5, 6, 7):
                                    runs.append({"passes": n_half, "adv": [speed // 2] * n_half, "t0": 0, "wrap": (speed // 2) * n_half + margin})
                        yield {"id": f"A:{style}:{cols}x{rows}:len{length}:loop{int(loop)}:sp{speed}", "space": "A", "src": anim_script(style, text, cols, rows, loop, speed), "runs": runs,
                               "anims": [{"style": style, "len": length, "loop": loop, "speed": speed, "row": 0}], "geom": [cols, rows], "lcds": 1}
    # 16x2 with realistic texts, both wirings
    for style in STYLES:
        for wiring in ("i2c", "parallel"):
            for loop in (False, True):
                text = "This text scrolls without blocking!" if style == "scroll" else "Hello"
                horizon = 2 * len(text) + 3 * 16 + 12
                runs = [{"passes": len(s), "adv": s, "t0": t0} for t0 in (0, 5) for s in schedules(horizon, 150, 1, False)]
                yield {"id": f"A16:{style}:{wiring}:loop{int(loop)}", "space": "A", "src": anim_script(style, text, 16, 2, loop, 150, wiring), "runs": runs,
                       "anims": [{"style": style, "len": len(text), "loop": loop, "speed": 150, "row": 0}], "geom": [16, 2], "lcds": 1}
    # negative speeds (constant and run-time): the host treats them as 0 = a step on every tick
    for style in STYLES:
        for loop in (False, True):
            for form in ("-5", "neg"):
                extra = ['neg = analog_read("A0") - 50'] if form == "neg" else []
                decl_l = "lcd = LCD(i2c_addr=39, cols=4, rows=2)"
                setup = [decl_l, 'lcd.line(1, "ZZZZ")'] + extra + [f'lcd.animate("{style}", 0, "abcdef", speed_ms={form}, loop={loop})']
                horizon = bound_steps(6, 4) + 4
                yield {"id": f"AN:{style}:loop{int(loop)}:{form}", "space": "A", "src": common.script(setup, ['mon.write("u")'], prologue=PRO),
                       "runs": [{"passes": horizon, "adv": [7] * horizon, "t0": 0, "ar": {"A0": [0]}}],
                       "anims": [{"style": style, "len": 6, "loop": loop, "speed": 0, "row": 0}], "geom": [4, 2], "lcds": 1, "min_steps": 0 if loop else (1 if style in ("blink", "bounce") else 2), "frames_only": True}
    # long texts (position counters beyond one byte): every style, non-looping, must still finish within the linear bound
    for style in STYLES:
        for length in (255, 256, 300):
            text = (ALPHA * 12)[:length]
            horizon = 2 * length + 3 * 8 + 12
            runs = [{"passes": horizon, "adv": [1] * horizon, "t0": 0}]
            yield {"id": f"AX:{style}:len{length}", "space": "A", "src": anim_script(style, text, 8, 2, False, 0), "runs": runs,
                   "anims": [{"style": style, "len": length, "loop": False, "speed": 0, "row": 0}], "geom": [8, 2], "lcds": 1}
    # two animations on one display, and on two displays; a main loop that `continue`s
    two = common.script(["lcd = LCD(i2c_addr=39, cols=8, rows=2)", 'lcd.animate("scroll", 0, "abcdefghij", speed_ms=100, loop=True)', 'lcd.animate("blink", 1, "xy", speed_ms=50, loop=True)'], ['mon.write("u")'], prologue=PRO)
    runs = [{"passes": len(s), "adv": s, "t0": 0} for s in schedules(20, 50, 2 if tier == "thorough" else 1, False)]
    yield {"id": "A2:one-display", "space": "A", "src": two, "runs": runs, "anims": [{"style": "scroll", "len": 10, "loop": True, "speed": 100, "row": 0}, {"style": "blink", "len": 2, "loop": True, "speed": 50, "row": 1}], "geom": [8, 2], "lcds": 1}
    # several animations of the SAME style at once (one display, two displays of one wiring): each keeps to its own text
    for style in STYLES:
        for loop_a, loop_b in ((True, True), (False, True), (False, False)):
            src2 = common.script(["lcd = LCD(i2c_addr=39, cols=6, rows=2)", f'lcd.animate("{style}", 0, "abcdefgh", speed_ms=100, loop={loop_a})', f'lcd.animate("{style}", 1, "XY", speed_ms=100, loop={loop_b})'], ['mon.write("u")'], prologue=PRO)
            yield {"id": f"A2s:{style}:one:{int(loop_a)}{int(loop_b)}", "space": "A", "src": src2, "runs": [{"passes": len(sch), "adv": sch, "t0": 0} for sch in schedules(30, 100, 1, False)],
                   "anims": [{"style": style, "len": 8, "loop": loop_a, "speed": 100, "row": 0}, {"style": style, "len": 2, "loop": loop_b, "speed": 100, "row": 1}], "geom": [6, 2], "lcds": 1,
                   "row_texts": {"0": "abcdefgh", "1": "XY"}, "no_background": True}
            src3 = common.script(["lcd = LCD(i2c_addr=39, cols=6, rows=1)", "aux = LCD(i2c_addr=38, cols=6, rows=1)", f'lcd.animate("{style}", 0, "abcdefgh", speed_ms=100, loop={loop_a})',
                                  f'aux.animate("{style}", 0, "XY", speed_ms=100, loop={loop_b})'], ['mon.write("u")'], prologue=PRO)
            yield {"id": f"A2s:{style}:two:{int(loop_a)}{int(loop_b)}", "space": "A", "src": src3, "runs": [{"passes": len(sch), "adv": sch, "t0": 0} for sch in schedules(30, 100, 1, False)],
                   "anims": [{"style": style, "len": 8, "loop": loop_a, "speed": 100, "row": 0}, {"style": style, "len": 2, "loop": loop_b, "speed": 100, "row": 0}], "geom": [6, 1], "lcds": 2,
                   "lcd_texts": {"0": "abcdefgh", "1": "XY"}}
    two_d = common.script(["lcd = LCD(i2c_addr=39, cols=8, rows=2)", "aux = LCD(rs=30, en=31, d4=32, d5=33, d6=34, d7=35, cols=6, rows=1)",
                           'lcd.animate("bounce", 1, "ab", speed_ms=100, loop=True)', 'aux.animate("typewriter", 0, "hello", speed_ms=100, loop=False)'], ['mon.write("u")'], prologue=PRO)
    yield {"id": "A2:two-displays", "space": "A", "src": two_d, "runs": [{"passes": len(s), "adv": s, "t0": 0} for s in schedules(24, 100, 1, False)],
           "anims": [{"style": "bounce", "len": 2, "loop": True, "speed": 100, "row": 1}, {"style": "typewriter", "len": 5, "loop": False, "speed": 100, "row": 0}], "geom": [8, 2], "lcds": 2}
    # animations started inside the loop body (once) and inside a helper
    late = common.script(["lcd = LCD(i2c_addr=39, cols=6, rows=2)", 'lcd.line(1, "ZZZZZZ")', "n = 0"], ["n += 1", "if n == 2:", '    lcd.animate("scroll", 0, "abcd", speed_ms=100, loop=True)', "mon.write(n)"], prologue=PRO)
    yield {"id": "AL:loop-started", "space": "A", "src": late, "runs": [{"passes": len(s), "adv": s, "t0": 0} for s in schedules(14, 100, 1, False)],
           "anims": [{"style": "scroll", "len": 4, "loop": True, "speed": 100, "row": 0}], "geom": [6, 2], "lcds": 1, "starts_at_pass": 1}
    helper = common.script(["lcd = LCD(i2c_addr=39, cols=6, rows=2)", 'lcd.line(1, "ZZZZZZ")', "def go():", '    lcd.animate("blink", 0, "ab", speed_ms=100, loop=True)', "go()"], ['mon.write("u")'], prologue=PRO)
    yield {"id": "AL:helper-started", "space": "A", "src": helper, "runs": [{"passes": len(s), "adv": s, "t0": 0} for s in schedules(12, 100, 1, False)],
           "anims": [{"style": "blink", "len": 2, "loop": True, "speed": 100, "row": 0}], "geom": [6, 2], "lcds": 1}
    # every subset of start sites (setup line, helpers called from setup, loop body, helper called from the loop) x
    # style per site x one / two displays: each started animation keeps its own state and keeps advancing
    from . import c05

    for case in c05.gen_anim_sites(tier):
        case = dict(case, id="S" + case["id"][1:], space="S")
        case["runs"] = [dict(r, adv=[120] * r["passes"]) for r in case["runs"]]
        yield case
    # power commands (display / backlight / brightness, constant and run-time arguments) given after the start, before
    # the loop or on its third pass, on a parallel display with a backlight pin and on an I2C display: a dark panel keeps
    # being advanced exactly as a lit one
    power_ops = ["lcd.backlight(False)", "lcd.display(False)", "lcd.backlight(flag)", "lcd.display(flag)", "lcd.backlight(False)\nlcd.display(False)", "lcd.brightness(0)", "lcd.backlight(False)\nlcd.backlight(True)"]
    for style in STYLES:
        for wiring in ("parallel-bl", "i2c"):
            for oi, op in enumerate(power_ops):
                if "brightness" in op and wiring == "i2c":
                    continue
                for where in ("setup", "pass3"):
                    for loop in (False, True):
                        decl = "lcd = LCD(i2c_addr=39, cols=4, rows=2)" if wiring == "i2c" else "lcd = LCD(rs=30, en=31, d4=32, d5=33, d6=34, d7=35, cols=4, rows=2, backlight_pin=10)"
                        setup = [decl, 'lcd.line(1, "ZZZZ")', 'flag = analog_read("A0") > 5', "n = 0", f'lcd.animate("{style}", 0, "abcdef", speed_ms=100, loop={loop})']
                        opl = op.split("\n")
                        body = ["n += 1"] + (["if n == 3:"] + ["    " + o for o in opl] if where == "pass3" else []) + ["mon.write(n)"]
                        if where == "setup":
                            setup += opl
                        horizon = bound_steps(6, 4) + 4
                        yield {"id": f"AP:{style}:{wiring}:{oi}:{where}:loop{int(loop)}", "space": "A", "src": common.script(setup, body, prologue=PRO),
                               "runs": [{"passes": len(sch), "adv": sch, "t0": 0, "ar": {"A0": [0]}} for sch in schedules(horizon, 100, 1, False)],
                               "anims": [{"style": style, "len": 6, "loop": loop, "speed": 100, "row": 0}], "geom": [4, 2], "lcds": 1, "min_steps": 0 if loop else (1 if style in ("blink", "bounce") else 2), "frames_only": True}
    for style in STYLES:
        cont = anim_script(style, "abcdef", 4, 2, True, 100, extra=["n = 0"], body=["n += 1", "if n % 2 == 0:", "    continue", "mon.write(n)"])
        yield {"id": f"AC:{style}:continue", "space": "A", "src": cont, "runs": [{"passes": len(s), "adv": s, "t0": 0} for s in schedules(16, 100, 1, False)],
               "anims": [{"style": style, "len": 6, "loop": True, "speed": 100, "row": 0}], "geom": [4, 2], "lcds": 1}


def device_monitor(case, run, dr) -> Optional[str]:
    by_phase: Dict[int, List] = {}
    for ev in dr.events:
        by_phase.setdefault(ev.phase, []).append(ev)
        if ev.kind == "delay" or ev.kind == "delay_us":
            return f"delay({ev.args[0]}) executed (animations must never block) in phase {ev.phase}"
        if ev.kind == "lcd" and len(ev.args) > 1 and ev.args[1] == "print" and "offrow=1" in ev.args:
            return f"frame written outside its row / beyond the width: {' '.join(ev.args)} (phase {ev.phase})"
    anims = case["anims"]
    cols, rows = case["geom"]
    anim_rows = {a["row"] for a in anims}
    if case.get("lcds", 1) == 1 and rows > 1:
        from rmc.device import unhex_latin1

        for ev in dr.events:
            if ev.kind == "lcd_dump" and int(ev.args[0]) == 0:
                cells = unhex_latin1(ev.args[1]).split("|")
                for r, row in enumerate(cells):
                    if len(row) != cols:
                        return f"display row {r} has {len(row)} cells"
                    if r not in anim_rows and row != "Z" * cols:
                        return f"animation on row {sorted(anim_rows)} modified row {r}: {row!r} (phase {ev.phase})"
    if case.get("row_texts") or case.get("lcd_texts"):
        from rmc.device import unhex_latin1

        for ev in dr.events:
            if ev.kind != "lcd_dump":
                continue
            cells = unhex_latin1(ev.args[1]).split("|")
            if case.get("row_texts") and int(ev.args[0]) == 0:
                for r, text in case["row_texts"].items():
                    extra = set(cells[int(r)]) - set(text) - {" "}
                    if extra:
                        return f"row {r} (animating {text!r}) shows characters {sorted(extra)} of another text: {cells[int(r)]!r} (phase {ev.phase})"
            if case.get("lcd_texts"):
                text = case["lcd_texts"].get(str(int(ev.args[0])))
                if text is not None:
                    extra = set(cells[0]) - set(text) - {" "}
                    if extra:
                        return f"display {ev.args[0]} (animating {text!r}) shows characters {sorted(extra)} of another text: {cells[0]!r} (phase {ev.phase})"
    looping = [a for a in anims if a["loop"] and a["len"] > 0]
    clock = run.get("t0", 0)
    last_step_time: Optional[int] = None
    steps = 0
    for p in range(run["passes"]):
        clock += run["adv"][p]
        evs = by_phase.get(p, [])
        if p <= case.get("starts_at_pass", -1):
            continue
        ticks = [i for i, ev in enumerate(evs) if ev.kind == "millis"]
        if len(ticks) > len(anims):
            return f"pass {p}: {len(ticks)} animation ticks for {len(anims)} animations (more than once per pass)"
        if len(ticks) < len(looping):
            return f"pass {p}: {len(ticks)} animation ticks, but {len(looping)} looping animations must be advanced every pass"
        if len(anims) == 1:
            a = anims[0]
            lcd_events = [ev for ev in evs if ev.kind == "lcd" and (not case.get("frames_only") or (len(ev.args) > 1 and ev.args[1] in ("print", "setCursor", "write")))]
            on_time = a["speed"] == 0 or last_step_time is None or last_step_time == 0 or clock - last_step_time >= a["speed"]
            if a["loop"] and a["len"] > 0 and on_time and not lcd_events:
                return f"pass {p} (t={clock}): looping animation due for a step but nothing was drawn"
            if lcd_events:
                if a["speed"] > 0 and last_step_time is not None and last_step_time > 0 and clock - last_step_time < a["speed"]:
                    return f"pass {p}: frames at t={last_step_time} and t={clock} are {clock - last_step_time} ms apart (speed_ms={a['speed']})"
                last_step_time = clock
                steps += 1
                if not a["loop"] and steps > bound_steps(a["len"], case["geom"][0]) :
                    return f"non-looping animation still drawing after {steps} steps (bound {bound_steps(a['len'], case['geom'][0])})"
    if steps < case.get("min_steps", 0):
        return f"the animation drew {steps} frame(s) in {run['passes']} passes (at least {case['min_steps']} expected before it can finish)"
    return None


def judge(case, tr, dev_runs, host_runs):
    if tr.status in ("reject", "syntax"):
        return "violation", f"script rejected: {tr.error}"
    if tr.status != "ok":
        return "transpile_" + tr.status, tr.error or ""
    if dev_runs is None:
        return "nocompile", "; ".join(case.get("_compile_errors", []))[:300]
    for idx, (run, dr) in enumerate(zip(case["runs"], dev_runs)):
        if not dr.ok:
            return "violation", f"run {idx}: firmware did not run cleanly: {dr.faults[:2]} exit={dr.exit_code}"
        if case.get("space") == "S":
            from . import c05

            err = c05.anim_site_monitor(case, dr)
            if err:
                return "violation", f"start sites: {err}"
            continue
        err = device_monitor(case, run, dr)
        if err:
            return "violation", f"run {idx} schedule adv={run['adv']} t0={run.get('t0', 0)}: {err}"
    return "match", ""


RUNS_PER_JOB = 1200


def main(tier: str, seed: int, only=None) -> int:
    report = Report(ID, LEVEL, tier, seed)
    stats: Dict[str, Any] = {}
    if not only or "host" in only:
        stats["host"] = host_bfs(report, tier)
        stats["host_multi"] = host_multi(report, tier)
    if not only or "device" in only:
        cases = []
        for case in gen_device(tier):
            # one job = at most RUNS_PER_JOB schedules of one firmware (the parsed traces of ten thousand runs do not fit
            # into memory sixteen times over)
            if len(case["runs"]) <= RUNS_PER_JOB:
                cases.append(case)
            else:
                for k in range(0, len(case["runs"]), RUNS_PER_JOB):
                    cases.append(dict(case, id=f"{case['id']}#{k // RUNS_PER_JOB}", runs=case["runs"][k : k + RUNS_PER_JOB]))
        n_sched = sum(len(c["runs"]) for c in cases)
        stats["device"] = {"firmwares": len(cases), "schedules": n_sched}
        common.drive(report, MOD, sorted(cases, key=lambda c: -len(c["runs"])), opts={"host": False}, batch_size=1, bad=("violation", "nocompile", "transpile_crash", "transpile_timeout"))
        report.transitions += n_sched
        report.traces_validated += n_sched
        report.add_sample({"device_case": cases[3]["id"], "schedule_example": cases[3]["runs"][1]["adv"]})
    report.extra_cov["parts"] = stats
    report.bounds = {"host": "styles x len 0..cols+2 x cols 1..6 (quick) / 1..8 (thorough) x loop x speed {0,1,100}; tick deltas {0, speed-1, speed, speed+1, 3*speed, 1}; BFS to fixpoint",
                     "device": "<= 1 deviation (quick) / <= 2 (thorough) from the on-time schedule over 2*len+3*cols+12 passes, clock starting at 0 and at 777 ms; all 4^5 (quick) / 4^7 (thorough) schedules for cols<=3, len<=3"}
    return report.finish(
        rule="host: explicit-state BFS with canonical state (animation fields, rows, clamped time since last step); device: deviation-bounded enumeration of clock schedules, each run compared pass by pass with the host LCD and checked by trace monitors; distinct = distinct firmware texts",
        assumptions=evidence.COMMON_ASSUMPTIONS + ["animations are started before the main loop (documented style)", "a 'step' on the device is a pass in which the display is written"],
    )


def replay(path: str) -> int:
    data = json.loads(open(path).read())
    if "deltas" in data:
        from Reduino.Displays import LCD  # noqa: F401
        cfg = data["config"]
        text, make, ops, canon, anim, deltas = host_space(cfg["style"], cfg["length"], cfg["cols"], cfg["loop"], cfg["speed"])
        report = Report(ID, LEVEL, "thorough", 0)
        host_bfs(report, "thorough")
        if any(v["key"] == data.get("key") for v in report.violations):
            print(f"VIOLATION property={ID} replay={path}")
            return 1
        print("replay: holds")
        return 0
    return common.replay_program(ID, MOD, path, opts={"host": False}, bad=("violation", "nocompile"))
