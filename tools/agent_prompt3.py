import json,sys,glob,os
pid=sys.argv[1]; sfx=sys.argv[2] if len(sys.argv)>2 else "b"; outdir=sys.argv[3] if len(sys.argv)>3 else "seed2"
props={json.loads(l)['id']:json.loads(l) for l in open('/verif/properties.jsonl')}
p=props[pid]
prev=[]
for d in sorted(glob.glob(f'/verif/seeded/{pid}-*')):
    m=json.load(open(d+'/meta.json')); prev.append('  - '+m.get('summary','')[:200])
prev_txt='\n'.join(prev) if prev else '  (none)'
print(f"""You are helping evaluate a verification effort for the open-source project Reduino (a Python-subset DSL -> Arduino C++ transpiler with host-side device simulation classes). You work ONLY inside your own scratch git worktree of the project at /tmp/wt/{pid}{sfx} (a detached checkout of the current HEAD). Do NOT read, list or modify /repo or /verif, and do not touch other directories under /tmp/wt. Python to use: /venv/bin/python (run the project's tests with: cd /tmp/wt/{pid}{sfx} && /venv/bin/python -m pytest -q -p no:cacheprovider ; pytest.ini puts the worktree's src/ on the path. For ad-hoc scripts use PYTHONPATH=/tmp/wt/{pid}{sfx}/src /venv/bin/python ...). clang++ and g++ are available; there is no network.

The project is supposed to satisfy this semantic property:

  Title: {p['title']}
  Statement: {p['statement']}
  Quantified over: {p['quantifier']['text']}
  Relevant files: {', '.join(p['anchors']['files'])}

YOUR TASK: produce THREE independent, realistic source changes ("seeded defects") to the project, each of which BREAKS this property while the project still imports/compiles and the ENTIRE existing test suite still passes. Each change should look like a plausible mistake or a well-meant refactor/optimisation a developer could make (a small edit, a few lines), and should need something SPECIFIC to manifest: a particular multi-step sequence of operations, an unusual-but-legal input, a particular combination of features, a specific argument value class, a particular ordering, a specific number of loop() passes, or two sites that each look fine alone. Do NOT produce changes that ordinary use or the most basic example would expose at once, and do not make the three changes variations of the same idea: pick three different mechanisms / code sites.

Earlier rounds already produced the following changes for this property; yours must use DIFFERENT mechanisms and different code sites, and should be subtler (harder to trigger) than these:
{prev_txt}

For each change k in 1..3 create a directory /tmp/{outdir}/{pid}/k/ containing:
  - patch.diff : the change as a unified diff produced with `git -C /tmp/wt/{pid}{sfx} diff` (paths relative to the repository root, so that `git apply patch.diff` works from the repository root). Only files under src/ may be changed.
  - demo.py (or test_demo.py) : a small self-contained demonstration program or pytest test that FAILS (non-zero exit / failing test) when the change is applied and PASSES on the unmodified tree. It must show the property violation concretely (e.g. show the Python behaviour vs. the generated firmware text/behaviour, or the broken invariant), not merely detect that the source text differs. It is fine for the demo to reason about the emitted C++ text, or to compile and run the emitted C++ with a tiny stub of the Arduino API that you write yourself inside the demo. The demo must import the project from the directory given by the environment variable REDUINO_SRC (a path to a src/ directory) if it is set, falling back to /tmp/wt/{pid}{sfx}/src otherwise.
  - meta.json : {{"property": "{pid}", "summary": "<one sentence: what was changed>", "manifests_when": "<what specific input/sequence/state is needed for the violation to show>", "files": [...], "ran": ["<commands you ran and their outcome>"]}}

Procedure for each change: (1) make the edit in the worktree; (2) run the full test suite - it must still pass completely (123 tests; if any test fails, choose a different change); (3) run your demo - it must fail; (4) save the diff; (5) revert the worktree with `git -C /tmp/wt/{pid}{sfx} checkout -- .` ; (6) run the demo again on the clean tree - it must pass. Leave the worktree clean (no uncommitted changes) when you are done. Do not commit anything. Note that the unmodified tree may itself violate the property in some corner cases; place your changes where the clean tree behaves correctly so that your demo passes on the clean tree.

Finish with a short report listing, for each of the three changes: the summary, what is needed for it to manifest, and confirmation of steps 2, 3 and 6. If, while working, you noticed inputs for which the UNMODIFIED tree itself violates the property, list them briefly (input + what goes wrong) under a heading "Observations on the clean tree".""")
