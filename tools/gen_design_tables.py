#!/venv/bin/python
"""Developer tool: regenerate the generated blocks of DESIGN.md (fix list, open findings, seed table).

Blocks are delimited by <!-- BEGIN:name --> / <!-- END:name --> markers; everything else is hand-written.
"""
import glob
import json
import re
import subprocess
from pathlib import Path

ROOT = Path(__file__).resolve().parent.parent
design = (ROOT / "DESIGN.md").read_text()


def block(name: str, body: str) -> None:
    global design
    pat = re.compile(rf"(<!-- BEGIN:{name} -->\n).*?(<!-- END:{name} -->)", re.S)
    assert pat.search(design), name
    design = pat.sub(lambda m: m.group(1) + body.rstrip("\n") + "\n" + m.group(2), design)


# fixes: every commit of /repo whose subject starts with "fix:"
log = subprocess.run(["git", "-C", "/repo", "log", "--reverse", "--format=%h %s"], capture_output=True, text=True).stdout.splitlines()
fixes = [ln for ln in log if ln.split(" ", 1)[1].startswith("fix:")]
block("fixes", "\n".join(f"* `{ln.split(' ', 1)[0]}` {ln.split(' ', 1)[1]}" for ln in fixes))

kf = json.loads((ROOT / "known_findings.json").read_text())["findings"]
block("open", "\n".join(f"* **{f['id']}** ({f['property']}) – {f['what']}" for f in kf if f["status"] == "open"))

rows = ["| seed | change | needs | caught by | note |", "|---|---|---|---|---|"]


def key(d):
    m = re.match(r".*/(C\d+)-(\d+)$", d)
    return (m.group(1), int(m.group(2)))


for d in sorted(glob.glob(str(ROOT / "seeded" / "*")), key=key):
    m = json.loads(Path(d, "meta.json").read_text())
    checks = ", ".join(sorted({c.split()[-1] for c in m.get("checked_with", [])}))
    clean = lambda s: str(s).replace("|", "/").replace("\n", " ")
    rows.append(f"| {Path(d).name} | {clean(m.get('summary', ''))[:230]} | {clean(m.get('manifests_when', ''))[:260]} | {checks} | {clean(m.get('note', ''))[:160]} |")
block("seeds", "\n".join(rows))
(ROOT / "DESIGN.md").write_text(design)
print(f"DESIGN.md: {len(fixes)} fixes, {sum(1 for f in kf if f['status'] == 'open')} open findings, {len(rows) - 2} seeds")
