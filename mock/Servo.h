// Mock of the Arduino Servo library (events only).
#ifndef REDU_MOCK_SERVO_H
#define REDU_MOCK_SERVO_H
#include <Arduino.h>
class Servo {
 public:
  Servo() : id_(-1), pin_(-1), attached_(false) {}
  uint8_t attach(int pin) { return attach(pin, 544, 2400); }
  uint8_t attach(int pin, int min_us, int max_us) {
    ensure_id();
    pin_ = pin;
    attached_ = true;
    redu_rt::ev("servo_attach %d %d %d %d", id_, pin, min_us, max_us);
    return static_cast<uint8_t>(id_);
  }
  void detach() { attached_ = false; }
  void write(int value) {
    ensure_id();
    redu_rt::ev("servo_write %d %d %d", id_, pin_, value);
  }
  void writeMicroseconds(int value) {
    ensure_id();
    redu_rt::ev("servo_us %d %d %d", id_, pin_, value);
  }
  int read() { return 0; }
  int readMicroseconds() { return 0; }
  bool attached() { return attached_; }

 private:
  int id_;
  int pin_;
  bool attached_;
  void ensure_id() {
    static int next = 0;
    if (id_ < 0) id_ = next++;
  }
};
#endif
