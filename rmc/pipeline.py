"""Batch pipeline: transpile -> compile (batched) -> run on the mock core -> run on CPython -> judge.

A *case* is a dict  {"id": str, "src": str, "runs": [input script, ...], ...extra keys for the judge}.
A check module provides  judge(case, transpiled, device_runs, host_runs) -> (outcome, detail)
where outcome is one of 'match', 'reject', 'skip', 'violation', ... (free text, counted in a histogram);
'violation' entries are what the check reports.
"""
from __future__ import annotations

import hashlib
import importlib
import json
import multiprocessing as mp
import os
import sys
import time
import traceback
from typing import Any, Callable, Dict, Iterable, Iterator, List, Optional, Sequence

from . import device, hostrun, observe

WORKERS = int(os.environ.get("VERIF_WORKERS", "0")) or min(16, os.cpu_count() or 4)


def case_key(check_id: str, case: dict) -> str:
    payload = json.dumps({"c": check_id, "src": case["src"], "runs": case.get("runs", [])}, sort_keys=True)
    return hashlib.sha256(payload.encode("utf-8")).hexdigest()[:24]


def default_judge(case, tr, dev_runs, host_runs, *, check_lcd=True, check_snap=True):
    """Reject-or-preserve differential verdict."""
    if tr.status in ("reject", "syntax"):
        return "reject", tr.error or ""
    if tr.status != "ok":
        return "transpile_" + tr.status, tr.error or ""
    if dev_runs is None:
        return "nocompile", "; ".join(case.get("_compile_errors", []))[:400]
    verdict = "match"
    for idx, (dr, hr) in enumerate(zip(dev_runs, host_runs)):
        if hr.error is not None:
            verdict = "skip_host_" + (hr.error_type or "error") if verdict == "match" else verdict
            continue
        if not dr.ok:
            why = "; ".join(dr.sanitizer[:2] + dr.faults[:2]) or f"exit {dr.exit_code}"
            return "violation", f"run {idx}: firmware did not run cleanly ({why}); CPython ran the script fine"
        diff = observe.compare(observe.reduce_host(hr.events), observe.reduce_device(dr), check_lcd=check_lcd, check_snap=check_snap)
        if diff:
            return "violation", f"run {idx} inputs={json.dumps(case['runs'][idx], sort_keys=True)}: {diff}"
    return verdict, ""


def process_batch(args) -> List[dict]:
    modname, cases, opts = args
    try:
        return _process_batch(modname, cases, opts)
    except Exception:  # noqa: BLE001 - report harness failures instead of hanging the pool
        return [{"id": c.get("id"), "outcome": "harness_error", "detail": traceback.format_exc()[-1500:], "case": c} for c in cases]


def _process_batch(modname: str, cases: Sequence[dict], opts: dict) -> List[dict]:
    mod = importlib.import_module(modname) if modname else None
    judge = getattr(mod, opts.get("judge", "judge"), None) if mod else None
    sanitize = bool(opts.get("sanitize"))
    need_host = opts.get("host", True)
    need_device = opts.get("device", True)
    trs = [device.transpile(c["src"], timeout_s=opts.get("transpile_timeout", 5.0)) for c in cases]
    ok_positions = [i for i, t in enumerate(trs) if t.status == "ok"]
    batch = None
    results: List[dict] = []
    try:
        if ok_positions and need_device:
            batch = device.build_batch([trs[i].cpp for i in ok_positions], sanitize=sanitize, tag=opts.get("tag", "b"))
        for i, case in enumerate(cases):
            tr = trs[i]
            dev_runs = None
            host_runs: List[hostrun.HostRun] = []
            if tr.status == "ok" and batch is not None:
                pos = ok_positions.index(i)
                if pos in batch.compile_errors:
                    case = dict(case, _compile_errors=batch.compile_errors[pos])
                elif batch.binary is not None and pos in batch.index:
                    dev_runs = device.run_program(batch, pos, case.get("runs") or [{"passes": 0}])
            if need_host and (tr.status == "ok" or opts.get("host_always")):
                for run in case.get("runs") or [{"passes": 0}]:
                    host_runs.append(hostrun.run_host(case["src"], run, timeout_s=opts.get("host_timeout", 5.0)))
            try:
                if judge is not None:
                    outcome, detail = judge(case, tr, dev_runs, host_runs)
                else:
                    outcome, detail = default_judge(case, tr, dev_runs, host_runs)
            except Exception:  # noqa: BLE001 - a bug in a judge is a harness error of THIS case, not of its whole batch
                import traceback

                outcome, detail = "harness_error", traceback.format_exc()[-1500:]
            rec = {"id": case.get("id"), "outcome": outcome, "detail": detail}
            if tr.status == "ok":
                rec["cpp_sha"] = hashlib.sha256(tr.cpp.encode()).hexdigest()[:16]
            if (outcome not in ("match", "reject", "skip") and not outcome.startswith("skip")) or outcome in opts.get("keep_case_on", ()):
                rec["case"] = {k: v for k, v in case.items() if not k.startswith("_")}
                if tr.status == "ok" and opts.get("keep_cpp", True):
                    rec["cpp"] = tr.cpp
            if opts.get("want_digest") and dev_runs is not None:
                h = hashlib.sha256()
                for dr in dev_runs:
                    for ev in dr.events:
                        if ev.kind in ("heap", "lcd_dump", "ar"):
                            continue
                        h.update(f"{ev.kind} {' '.join(ev.args)} @{ev.phase}\n".encode())
                    h.update(f"exit {dr.exit_code} {dr.completed}\n".encode())
                rec["digest"] = h.hexdigest()[:20]
                rec["pair"] = case.get("pair")
            if opts.get("want_stats") and dev_runs is not None:
                rec["events"] = sum(len(r.events) for r in dev_runs)
            results.append(rec)
    finally:
        if batch is not None:
            batch.cleanup()
    return results


def chunked(it: Iterable[dict], size: int) -> Iterator[List[dict]]:
    buf: List[dict] = []
    for item in it:
        buf.append(item)
        if len(buf) >= size:
            yield buf
            buf = []
    if buf:
        yield buf


_POOL: Optional[mp.pool.Pool] = None


def _init_worker() -> None:
    """A stray SIGALRM (the wall-clock guards of transpile / host runs use the real-time timer) must never kill a pool
    worker: a dead worker loses its task and the whole exploration would wait for it for ever."""
    import signal

    signal.signal(signal.SIGALRM, lambda signum, frame: None)
    signal.signal(signal.SIGPROF, lambda signum, frame: None)


def pool() -> mp.pool.Pool:
    global _POOL
    if _POOL is None:
        ctx = mp.get_context("fork")
        _POOL = ctx.Pool(WORKERS, initializer=_init_worker)
    return _POOL


def close_pool() -> None:
    global _POOL
    if _POOL is not None:
        _POOL.close()
        _POOL.join()
        _POOL = None


def run_cases(modname: str, cases: Iterable[dict], *, batch_size: int = 64, opts: Optional[dict] = None) -> Iterator[dict]:
    """Yield one result record per case (unordered)."""
    opts = dict(opts or {})
    jobs = ((modname, chunk, opts) for chunk in chunked(cases, batch_size))
    if WORKERS <= 1:
        for job in jobs:
            yield from process_batch(job)
        return
    the_pool = pool()
    pids = sorted(p.pid for p in the_pool._pool)  # noqa: SLF001 - a worker that dies is silently replaced; its task is lost
    it = the_pool.imap_unordered(process_batch, jobs)
    while True:
        try:
            results = it.next(timeout=60)
        except StopIteration:
            break
        except mp.TimeoutError:
            now = sorted(p.pid for p in the_pool._pool)  # noqa: SLF001
            if now != pids:
                raise RuntimeError(f"a pool worker died while exploring (killed? out of memory?): worker pids {pids} -> {now}; its task is lost, the exploration cannot complete") from None
            continue
        yield from results
