#!/usr/bin/env python3
"""Regenerate /verif/MANIFEST.json from the table below (kept in one place so it stays valid)."""
import json
from pathlib import Path

ROOT = Path(__file__).resolve().parent.parent

CHECKS = {
    "C01": dict(
        category="model_checking",
        text="Bounded-exhaustive, prefix-closed exploration of five program sub-spaces (expressions, statement sequences, control-flow nestings, helper-function call patterns, lists); every program is transpiled by the real parse()/emit(), compiled and RUN on a mock Arduino core for every input vector and pass count and compared event-for-event with CPython executing the same text against the host Reduino modules. No model: every transition executes the real code.",
        design_ref="DESIGN.md §2 C01",
        note="trusted base: mock Arduino core (/verif/mock), host clang++, CPython; bounds: depth/sequence lengths as listed in the evidence file; |values| < 2^15",
        technique="explicit enumeration of all programs up to stated depth + differential execution (firmware on mock core vs CPython)",
    ),
}

NOT_YET = {}


def main():
    props = [json.loads(l) for l in (ROOT / "properties.jsonl").read_text().splitlines() if l.strip()]
    checks = []
    na = []
    for p in props:
        pid = p["id"]
        if pid in CHECKS:
            c = CHECKS[pid]
            checks.append({
                "property_id": pid,
                "quick_cmd": f"./check {pid} --tier quick",
                "thorough_cmd": f"./check {pid} --tier thorough",
                "evidence_file": f"evidence/{pid}.json",
                "replay_cmd_template": f"./check {pid} --replay {{path}}",
                "engine": "rmc",
                "level_claimed": {"category": c["category"], "text": c["text"], "design_ref": c["design_ref"]},
                "level_note": c["note"],
                "technique": c["technique"],
            })
        else:
            na.append({"property_id": pid, "reason": NOT_YET.get(pid, "not claimed yet: the bounded-exhaustive check for this property is still under construction (see DESIGN.md §5 build order); nothing is asserted about it")})
    manifest = {
        "version": 1,
        "setup_cmd": "./check --setup",
        "hooks": {
            "guard": "REDUINO_VERIF",
            "enable": "REDUINO_VERIF=1 in the environment of the check (set by the checks that use the hook); no build step",
            "baseline_off_cmd": "cd /repo && env -u REDUINO_VERIF /venv/bin/python -m pytest -ra -q -p no:cacheprovider --timeout=900 --continue-on-collection-errors",
            "source_commits": [],
            "add_only": True,
        },
        "engines": [
            {"name": "rmc", "path": "rmc/", "serves_properties": sorted(CHECKS), "kind_free_text": "hand-written bounded-exhaustive explorer: enumerators, explicit-state BFS, batch compile-and-run of emitted firmware on a mock Arduino core, CPython reference executor"},
        ],
        "checks": checks,
        "not_applicable": na,
        "notes": "All checks rebuild from /repo's working tree (Reduino is imported from /repo/src; emitted C++ is compiled on every run). REDUINO_SRC=<dir> points a check at a scratch copy for mutant demonstrations.",
    }
    (ROOT / "MANIFEST.json").write_text(json.dumps(manifest, indent=1) + "\n")
    print("MANIFEST.json written:", len(checks), "checks,", len(na), "not claimed")


if __name__ == "__main__":
    main()
