// HD44780 DDRAM model shared by the LiquidCrystal / LiquidCrystal_I2C mocks.
#ifndef REDU_MOCK_LCD_MODEL_H
#define REDU_MOCK_LCD_MODEL_H
#include <Arduino.h>
namespace redu_rt {
class LcdModel {
 public:
  LcdModel() : id_(-1), cols_(16), rows_(2), addr_(0), cur_row_(0), begun_(false) {
    memset(ddram_, ' ', sizeof ddram_);
    memset(cgram_, 0, sizeof cgram_);
  }
  void model_begin(int cols, int rows, const char *how) {
    ensure_id();
    cols_ = cols;
    rows_ = rows;
    begun_ = true;
    memset(ddram_, ' ', sizeof ddram_);
    addr_ = 0;
    cur_row_ = 0;
    ev("lcd %d %s %d %d", id_, how, cols, rows);
  }
  void clear() {
    ensure_id();
    memset(ddram_, ' ', sizeof ddram_);
    addr_ = 0;
    cur_row_ = 0;
    ev("lcd %d clear", id_);
  }
  void home() { addr_ = 0; cur_row_ = 0; }
  void setCursor(int col, int row) {
    ensure_id();
    int r = row;
    if (r < 0) r = 0;                     // uint8_t wrap in the real library is not modelled; flagged
    if (r >= rows_) r = rows_ - 1;        // the real library clamps the row
    if (r < 0) r = 0;
    cur_row_ = r;
    addr_ = (row_offset(r) + col) & 0xff;
    bool badpos = (row < 0 || row >= rows_ || col < 0);
    if (!rt().lcd_quiet || badpos) ev("lcd %d setCursor %d %d%s", id_, col, row, badpos ? " badpos=1" : "");
  }
  size_t write(uint8_t c) {
    put(static_cast<char>(c));
    return 1;
  }
  size_t print(const String &s) { return emit(s.c_str(), s.length()); }
  size_t print(const char *s) { return s ? emit(s, strlen(s)) : 0; }
  size_t print(char c) { return emit(&c, 1); }
  size_t print(int v) { String t(v); return print(t); }
  size_t print(unsigned int v) { String t(v); return print(t); }
  size_t print(long v) { String t(v); return print(t); }
  size_t print(unsigned long v) { String t(v); return print(t); }
  size_t print(double v, int digits = 2) { String t(v, static_cast<unsigned char>(digits)); return print(t); }
  void createChar(uint8_t slot, uint8_t *rows) {
    ensure_id();
    slot &= 7;
    memcpy(cgram_[slot], rows, 8);
    ev("lcd %d createChar %d %d %d %d %d %d %d %d %d", id_, slot, rows[0], rows[1], rows[2], rows[3], rows[4], rows[5], rows[6], rows[7]);
  }
  void display() { ensure_id(); ev("lcd %d display", id_); }
  void noDisplay() { ensure_id(); ev("lcd %d noDisplay", id_); }
  void cursor() {}
  void noCursor() {}
  void blink() {}
  void noBlink() {}
  void dump() {
    if (id_ < 0) return;
    char out[4 * 3 * 41 + 16];
    size_t o = 0;
    for (int r = 0; r < rows_ && r < 4; ++r) {
      if (r) out[o++] = '|';
      char rowbuf[48];
      int n = cols_ > 40 ? 40 : cols_;
      for (int c = 0; c < n; ++c) rowbuf[c] = ddram_[(row_offset(r) + c) & 0xff];
      char enc[3 * 48 + 4];
      hex_text(rowbuf, static_cast<size_t>(n), enc, sizeof enc);
      size_t l = strlen(enc);
      memcpy(out + o, enc, l);
      o += l;
    }
    out[o] = 0;
    ev("lcd_dump %d %s", id_, out);
  }
  static void dump_thunk(void *p) { static_cast<LcdModel *>(p)->dump(); }

 protected:
  int id_;
  int cols_;
  int rows_;
  int addr_;
  int cur_row_;
  bool begun_;
  char ddram_[256];
  uint8_t cgram_[8][8];

  void ensure_id() {
    if (id_ >= 0) return;
    Runtime &r = rt();
    id_ = r.lcd_count;
    if (r.lcd_count < 16) r.lcds[r.lcd_count++] = this;
    r.lcd_dump_fn = &LcdModel::dump_thunk;
  }
  bool abstract_layout() const { return cols_ * rows_ > 80 || (rows_ > 2 && cols_ > 20) || cols_ > 40; }
  int row_offset(int r) const {
    // Geometries that do not fit one HD44780 (more than 80 cells, e.g. 40x4, or more than two rows of more
    // than 20 cells, e.g. 26x3: rows 2/3 share a 40-cell DDRAM line with rows 0/1) get an abstract layout:
    // every row has its own 64-byte stripe, so rows cannot alias.
    if (abstract_layout()) return (r & 3) * 64;
    switch (r) {
      case 0: return 0x00;
      case 1: return 0x40;
      case 2: return 0x00 + cols_;
      default: return 0x40 + cols_;
    }
  }
  bool in_row(int addr) const {
    int base = row_offset(cur_row_);
    return addr >= base && addr < base + cols_;
  }
  void put(char c) {
    ddram_[addr_ & 0xff] = c;
    if (abstract_layout()) { addr_ = (addr_ + 1) & 0xff; return; }
    // HD44780 two-line address counter: 0x00-0x27 then 0x40-0x67
    if (addr_ == 0x27) addr_ = 0x40;
    else if (addr_ == 0x67) addr_ = 0x00;
    else addr_ = (addr_ + 1) & 0x7f;
  }
  size_t emit(const char *s, size_t n) {
    ensure_id();
    int start = addr_;
    int off = 0;
    for (size_t i = 0; i < n; ++i) {
      if (!in_row(addr_)) off = 1;
      put(s[i]);
    }
    if (rt().lcd_quiet && !off) return n;
    char enc[3 * 256 + 4];
    hex_text(s, n > 250 ? 250 : n, enc, sizeof enc);
    ev("lcd %d print row=%d col=%d n=%d offrow=%d text=%s", id_, cur_row_, start - row_offset(cur_row_), static_cast<int>(n), off, enc);
    return n;
  }
};
}  // namespace redu_rt
#endif
