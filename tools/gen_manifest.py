#!/usr/bin/env python3
"""Regenerate /verif/MANIFEST.json from the table below (kept in one place so it stays valid)."""
import json
from pathlib import Path

ROOT = Path(__file__).resolve().parent.parent

CHECKS = {
    "C01": dict(
        category="model_checking",
        text="Bounded-exhaustive, prefix-closed exploration of five program sub-spaces (expressions, statement sequences, control-flow nestings, helper-function call patterns, lists); every program is transpiled by the real parse()/emit(), compiled and RUN on a mock Arduino core for every input vector and pass count and compared event-for-event with CPython executing the same text against the host Reduino modules. No model: every transition executes the real code.",
        design_ref="DESIGN.md §2 C01",
        note="trusted base: mock Arduino core (/verif/mock), host clang++, CPython; bounds: depth/sequence lengths as listed in the evidence file; |values| < 2^15",
        technique="explicit enumeration of all programs up to stated depth + differential execution (firmware on mock core vs CPython)",
    ),
    "C04": dict(
        category="model_checking",
        text="All operation sequences (k<=2 full alphabets, k=3 over cores; thorough k<=3 full, k=4 core) per actuator (Led, RGBLed, Servo default+narrow, DCMotor), every numeric argument given as a literal and as a run-time value, getters printed after every operation. In-range: firmware trace (levels held during every wait, getter values, final levels) compared with the host classes executed by CPython. Out-of-range: clamp monitor on every pin write plus metamorphic equality with the clamped-argument sequence.",
        design_ref="DESIGN.md §2 C04",
        note="trusted base: mock core, CPython, host actuator classes as reference; digitalWrite HIGH/LOW identified with duty 255/0; delays compared to <1 ms, motor duty to 1 count as the property allows",
        technique="exhaustive enumeration of operation sequences up to depth k + differential execution against the host classes + clamp monitors",
    ),
    "C05": dict(
        category="model_checking",
        text="Every subset (<=2 quick / <=3 thorough) of the ten device kinds x declaration position (before loop / top of loop body / re-bound) x first-use position x with/without main loop x N passes is transpiled, compiled and run; temporal monitors over the firmware trace check configure-before-use, one mode per pin, motor safe stop, no configuration inside loop(), exactly one button sample per pass before user code; differential agreement with CPython for every N; break placements.",
        design_ref="DESIGN.md §2 C05",
        note="trusted base: mock core + CPython; loop-declared devices are used with idempotent commands because CPython re-creates the host object every pass",
        technique="exhaustive enumeration of declaration/use placements + trace monitors + differential execution for N in 0..3",
    ),
    "C13": dict(
        category="exploration",
        text="Complete product (platform names + near misses) x (all 303 registered boards + 12 near-miss spellings per board) against registry membership, partition check, and write_project for every board x port alphabet x all library lists of length <=3 x source kinds read back with configparser, byte comparison and a sentinel directory tree.",
        design_ref="DESIGN.md §2 C13",
        note="the registry tables are the definition of 'registered'; ports without leading/trailing whitespace or line breaks",
        technique="exhaustive enumeration of input grids with an independent read-back oracle (configparser, bytes, directory listing)",
    ),
    "C19": dict(
        category="model_checking",
        text="Explicit-state BFS to fixpoint on real Led/RGBLed/Servo(2 calibrations)/DCMotor objects (deep copies): every public method x in-range, boundary and out-of-range arguments from every reachable state; invariants checked in every state, on every transition including raising ones (atomicity), and on the intermediate states at every sleep (monotone fades/ramps, exact sleep totals).",
        design_ref="DESIGN.md §2 C19",
        note="state = public getters; sleeps observed through the package-level Reduino.Actuators.sleep seam",
        technique="explicit-state BFS with canonical hashing to a fixpoint over the real objects",
    ),
    "C20": dict(
        category="model_checking",
        text="Core pin simulation: explicit-state BFS to fixpoint with a dict memory as canonical state, implementation rebuilt per history and compared on every read after every transition (aliasing 7/'7', non-interference, pull-up default, clamping). Utils.map on the full integer grid -4..4^5 against exact Fraction arithmetic; sleep, Button (all signals up to length 6/8), Potentiometer/Ultrasonic provider sequences, SerialMonitor write/close sequences against a fake port.",
        design_ref="DESIGN.md §2 C20",
        note="Core module state is reset by re-executing the module (importlib.reload)",
        technique="explicit-state BFS against a reference memory model + exhaustive argument grids",
    ),
    "C08": dict(
        category="exploration",
        text="For every device constructor, method and Core helper (45 callables, signatures read with inspect.signature from the working tree) every call shape Python accepts is generated (all positional/keyword splits, keyword permutations, subsets of omitted defaults) and transpiled; Python's own binder (Signature.bind) is the oracle for the IR node fields, and all accepted shapes with equal bindings must give byte-identical firmware.",
        design_ref="DESIGN.md §2 C08",
        note="host-only parameters (providers, timeout, newline, sleep_func) excluded; keyword permutations beyond 4 keywords limited to rotations + reversal",
        technique="exhaustive enumeration of call shapes against inspect.signature binding",
    ),
    "C10": dict(
        category="model_checking",
        text="(1) Set-iteration order is made an explorer-owned choice by loading parser.py/emitter.py through an AST rewrite (ChoiceSet); all executions with <=1 (quick) / <=2 (thorough) non-default iteration orders are run per corpus script and must emit identical bytes. (2) BFS over parse()/emit() call histories (depth 2/3) against fresh-process outputs plus a deep fingerprint of module-level state, emit() idempotence, interleaved parse/emit. (3) A second transpilation run re-entrantly at every call boundary / line of the first. (4) real PYTHONHASHSEED subprocesses as a cross-check.",
        design_ref="DESIGN.md §2 C10",
        note="assumes set iteration is the only hash-seed dependent behaviour (dicts are insertion ordered); corpus of 12 scripts",
        technique="stateless exploration with deviation bounding over iteration-order choice points + BFS over call histories + single-preemption schedule enumeration",
    ),
    "C12": dict(
        category="fault_enumeration",
        text="The real target() is driven over the full grid (platform/board validity x upload x PlatformIO present/absent x 6 script kinds) with a fault injected at every single step of its pipeline (thorough: ordered pairs); recorder/fault-injector wraps subprocess.run, tempfile.mkdtemp and the pathlib writers; monitors check validation-first, PlatformIO only on request, artefacts (return value, main.cpp, ini read back), process order, no effect after a failure and propagation of every failure.",
        design_ref="DESIGN.md §2 C12",
        note="the wrapped seams are assumed to be the only ways target() touches the outside world",
        technique="exhaustive single-fault (and ordered pair) injection over the configuration grid with effect-trace monitors",
    ),
    "C11": dict(
        category="exploration",
        text="Complete products of 88 argument/language positions x 42 hostile or expensive expressions, 57 statement kinds x 9 scopes, constant-growth and deep-nesting scripts, and ALL noise strings up to length 3 (4 thorough) over a 20-symbol structural alphabet (as file, inside 5 block kinds, as argument text); each input transpiled in an isolated interpreter under sys.addaudithook with hard time and memory limits; oracle: outcome in {text, ValueError, SyntaxError only for non-Python}, no exec/open/process/network/import event, canary untouched, prompt, module-state fingerprint unchanged.",
        design_ref="DESIGN.md §2 C11",
        note="audit events are assumed to reveal host-side execution and side effects; 6 s hard / 2 s soft limit, 3 GiB address space",
        technique="exhaustive enumeration of position x expression products and all short noise strings under an audit-hook sandbox",
    ),
    "C15": dict(
        category="model_checking",
        text="Button: 16 script shapes (declared before the loop / at its top, with/without on_click, 0-2 is_pressed() per pass, one or two buttons) each run on ALL level sequences of length 7 (quick) / 9 (thorough); monitors over the firmware trace: one sample per pass before user code, clicks == rising edges of the sampled signal (never at start-up / held / on release), is_pressed == pass sample, host Button agreement. Potentiometer: read() in 10 expression positions x all 3-value sequences, differential with the host class. Ultrasonic: all call histories of depth 2 (quick) / 3 over 10 echo patterns x 6 clock advances from a stopped and a running clock; attempts, fallback chain, distance formula and 60 ms trigger spacing.",
        design_ref="DESIGN.md §2 C15",
        note="mock core owns digitalRead/analogRead/pulseIn/millis; pulseIn timeout consumes 30 ms of virtual time; ms timestamp resolution",
        technique="exhaustive enumeration of input signal sequences / call histories per compiled firmware + trace monitors",
    ),
    "C16": dict(
        category="model_checking",
        text="All buzzer call sequences (all singles in setup and loop, literal and run-time arguments; core x all pairs; thorough: all pairs + core triples) over play_tone/stop/beep/sweep/melody with zero, negative, fractional frequencies, zero durations, counts/steps <= 0, tempos <= 0 and all seven melodies; a protocol automaton derived from the property text checks every call's tone/noTone/delay events on the buzzer pin and the three getters.",
        design_ref="DESIGN.md §2 C16",
        note="the melody score table in checks/c16.py is a golden copy; no host model exists for the buzzer",
        technique="exhaustive enumeration of call sequences + protocol-automaton monitor over the executed firmware trace",
    ),
    "C17": dict(
        category="model_checking",
        text="Helper layer: one firmware per (wiring, cols, rows) executes every (col, row in {0,last}, text length 0..cols+2, align, clear flag, blank/filled background) variant of write/line/message at run time; the mock HD44780 cell matrix is compared with the host LCD buffer after every call and any DDRAM write outside the addressed row or beyond the width is flagged. Program layer: all op sequences k<=2 (+power-op triples) over text, progress, glyph, display/backlight/brightness on 16x2 parallel and 20x4 I2C. Progress layer: every (value, max, width, label) against the monotone / saturation / exact-multiple / one-cell rules.",
        design_ref="DESIGN.md §2 C17",
        note="quick: cols in {1,2,8,16,20,40} x rows {1,2,4}; thorough: cols 1..40 x rows 1..4; ASCII text; geometries above 80 cells use an abstract per-row layout in the mock",
        technique="exhaustive enumeration of geometry/argument grids executed inside compiled firmware + differential cell-matrix comparison with the host model",
    ),
    "C18": dict(
        category="model_checking",
        text="Host: explicit-state BFS to fixpoint on real LCD objects for every style x text length x width x loop x speed with tick times advancing by {0, speed-1, speed, speed+1, 3*speed}: never raises, row confinement, rate limit, bounded termination, looping liveness. Device: the clock advance before every loop() pass is an explorer-owned choice; all schedules with <=1 (quick) / <=2 (thorough) deviations from on-time over 2*len+3*cols+12 passes (clock from 0 and from 777 ms) and all schedules on tiny geometries; monitors: no delay ever, one tick per live animation per pass (also when the main loop continues), frames confined to the row, rate limit, bounded termination, liveness.",
        design_ref="DESIGN.md §2 C18",
        note="animations started before the main loop; a device 'step' is a pass in which the display is written; frame contents are not compared between host and device (the property does not ask for it)",
        technique="explicit-state BFS (host) + deviation-bounded schedule enumeration over the virtual clock (device)",
    ),
    "C03": dict(
        category="model_checking",
        text="Catalogue of 12 numeric fold sites and 5 container sites x supply modes (literal, 30 name-free expressions, name bound once, name re-bound on one of 10 control-flow paths before/after the site in setup or in the main loop, sibling arm, inside a helper; strings/lists mutated by append/remove/+=/re-binding on those paths, thorough: ordered pairs of paths) x inputs choosing which path runs; every program is run on the mock core and compared with CPython, and equal-valued literal/expression/name variants must give equal firmware traces.",
        design_ref="DESIGN.md §2 C03",
        note="expressions whose operators have C semantics when NOT folded (negative // and %, **, value-returning and/or: C01 findings) are used at folding sites only",
        technique="exhaustive enumeration of fold site x supply mode x control-flow path + differential and metamorphic execution",
    ),
    "C06": dict(
        category="exploration",
        text="Pairwise-complete (thorough: triple-complete on the core) product of ~90 language/device features incl. every device kind before the loop and at its top, helper functions defined before and after the declarations they use, variables first assigned in if/for/while/try/nested blocks with int/float/str/bool values in setup and loop; every accepted program must compile and link against the mock core, define one setup() and one loop(), include the header of every library class it instantiates. Every printable-ASCII string literal of length <=2 plus non-ASCII and escape-heavy specials in mon.write, f-string literal parts and LCD text is compiled, run and compared with CPython.",
        design_ref="DESIGN.md §2 C06",
        note="compiler = host clang++ with exceptions enabled, mock headers instead of the Arduino core",
        technique="pairwise/triple-wise exhaustive feature combination + compile/link oracle; exhaustive short string literals + differential execution",
    ),
    "C09": dict(
        category="model_checking",
        text="All list/str histories k<=2 (+k=3 core; thorough k<=3, k=4 core) over literals, ascending/descending/empty comprehensions, append/remove, indexing incl. negative indices, len-guarded removal, string growth/reset, loop-local lists, in three placements with N=4 passes; firmware built with ASan+UBSan and an interposed operator new/delete; oracle: no sanitizer/allocator report, values equal CPython, live heap bytes constant across passes whenever the program's observable state is periodic.",
        design_ref="DESIGN.md §2 C09",
        note="String uses malloc and is outside the live-byte count; periodicity recognised through printed observations",
        technique="exhaustive enumeration of operation histories executed under AddressSanitizer/UBSan with heap accounting",
    ),
    "C14": dict(
        category="exploration",
        text="Complete product servos 0-2 (every before-loop/loop-top split) x parallel LCDs 0-2 x I2C LCDs 0-2 (both declaration orders) x other devices x with/without animation; for each script lib_deps == included library headers == instantiated library classes == libraries needed by the declared devices, no duplicates; evaluated forward twice and in reverse in one interpreter (history dependence); representatives compiled against header-scoped mock classes.",
        design_ref="DESIGN.md §2 C14",
        note="LCDs declared before the loop, servos before it or at its top",
        technique="exhaustive enumeration of device multiplicities and placements with a three-way set-agreement oracle",
    ),
    "C02": dict(
        category="model_checking",
        text="For one name: 23 typed sources x 9 assignment scopes followed by type-revealing observers (value, arithmetic, f-string, derived variable, helper round trip, next loop pass); all ordered pairs of assignments (type classes x scopes) whose first declared type can represent both values; all ordered pairs of call sites with differently typed arguments on three helpers; all pairs (and three-way joins) of return expressions of different types in different branches. Every program is run on the mock core and the printed values are compared with CPython.",
        design_ref="DESIGN.md §2 C02",
        note="re-assignments the first declared type cannot represent (int then float, bool then int, number/str) are a known finding kept out of the product (witnesses in known_findings.json)",
        technique="exhaustive enumeration of source-type x scope x order combinations + differential execution",
    ),
    "C07": dict(
        category="exploration",
        text="Accounting: 63 probe statements (every Python statement kind, device-call forms, empty branches, multi-line and semicolon forms) x 8 scopes; with the guarded hook (REDUINO_VERIF=1) the silently skipped lines must all belong to the no-meaning set, and black-box every accepted script's firmware trace must equal CPython's. Layout: 10 base scripts x EVERY single edit (comment line at every index x every indentation column, trailing comment on every line incl. block headers, blank/whitespace-only lines, trailing whitespace, re-indentation with 1/2/3/8 spaces and tabs, CRLF, one space inserted/removed at every token boundary; thorough: all pairs of line insertions); a variant is admitted iff CPython's AST is unchanged and must then give byte-identical firmware.",
        design_ref="DESIGN.md §2 C07",
        note="hook: parser._VERIF_IGNORED (add-only, inert without REDUINO_VERIF=1); sketches that do not compile are C06's business",
        technique="exhaustive enumeration of statement x scope and of all single layout edits with CPython's own parser as the meaning-preservation oracle",
    ),
}

NOT_YET = {}


def main():
    props = [json.loads(l) for l in (ROOT / "properties.jsonl").read_text().splitlines() if l.strip()]
    checks = []
    na = []
    for p in props:
        pid = p["id"]
        if pid in CHECKS:
            c = CHECKS[pid]
            checks.append({
                "property_id": pid,
                "quick_cmd": f"./check {pid} --tier quick",
                "thorough_cmd": f"./check {pid} --tier thorough",
                "evidence_file": f"evidence/{pid}.json",
                "replay_cmd_template": f"./check {pid} --replay {{path}}",
                "engine": "rmc",
                "level_claimed": {"category": c["category"], "text": c["text"], "design_ref": c["design_ref"]},
                "level_note": c["note"],
                "technique": c["technique"],
            })
        else:
            na.append({"property_id": pid, "reason": NOT_YET.get(pid, "not claimed yet: the bounded-exhaustive check for this property is still under construction (see DESIGN.md §5 build order); nothing is asserted about it")})
    manifest = {
        "version": 1,
        "setup_cmd": "./check --setup",
        "hooks": {
            "guard": "REDUINO_VERIF",
            "enable": "REDUINO_VERIF=1 in the environment of the check (set by the checks that use the hook); no build step",
            "baseline_off_cmd": "cd /repo && env -u REDUINO_VERIF /venv/bin/python -m pytest -ra -q -p no:cacheprovider --timeout=900 --continue-on-collection-errors",
            "source_commits": ["7d78685"],
            "add_only": True,
        },
        "engines": [
            {"name": "rmc", "path": "rmc/", "serves_properties": sorted(CHECKS), "kind_free_text": "hand-written bounded-exhaustive explorer: enumerators, explicit-state BFS, batch compile-and-run of emitted firmware on a mock Arduino core, CPython reference executor"},
        ],
        "checks": checks,
        "not_applicable": na,
        "notes": "All checks rebuild from /repo's working tree (Reduino is imported from /repo/src; emitted C++ is compiled on every run). REDUINO_SRC=<dir> points a check at a scratch copy for mutant demonstrations.",
    }
    (ROOT / "MANIFEST.json").write_text(json.dumps(manifest, indent=1) + "\n")
    print("MANIFEST.json written:", len(checks), "checks,", len(na), "not claimed")


if __name__ == "__main__":
    main()
