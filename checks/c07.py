"""C07 — every line is accounted for and stays in the block Python assigns it to.

(1) Accounting: one representative of every Python statement kind and of every device-call form x every
    scope (top level, if, else, while, for, def, main loop, nested).  With the guarded hook
    (REDUINO_VERIF=1) the list of silently skipped lines must contain only members of the no-meaning set
    (imports, target(), pass, global/nonlocal, comments, docstrings / bare constants, host-only print);
    black-box: a script whose probe statement has an observable effect is either rejected or produces
    firmware whose trace equals CPython's (run through the differential pipeline).
(2) Layout: a corpus of base scripts covering every construct at every scope; for each, EVERY single edit
    from: comment line inserted at every line index x every indentation column in use (+-1); trailing
    comment on every line incl. block headers; blank / whitespace-only line at every index; re-indentation
    with unit 1,2,3,4,8 spaces and tabs; trailing whitespace on every line; one optional space inserted or
    removed at every token boundary.  Quick: single edits; thorough: all pairs of (comment / blank /
    trailing-comment) edits.  A variant is admitted only if CPython's ast.dump(ast.parse(.)) equals the
    base's (meaning-preserving by construction); then emit(parse(variant)) must be byte-identical to the
    base output (or both reject).
"""
from __future__ import annotations

import ast
import io
import itertools
import json
import os
import tokenize
from typing import Dict, Iterator, List, Optional, Sequence, Tuple

from rmc import device, evidence, explore, pipeline
from rmc.runner import Report
from . import common

ID = "C07"
LEVEL = "exploration"
MOD = "checks.c07"

PRO = (
    "from Reduino import target\n"
    'target("COM3")\n'
    "from Reduino.Actuators import Led, Servo\n"
    "from Reduino.Communication import SerialMonitor\n"
    "from Reduino.Core import analog_read\n"
    "from Reduino.Utils import sleep\n"
    "mon = SerialMonitor(9600)\n"
    "led = Led(9)\n"
    'a = analog_read("A0")\n'
    "q = a\n"
    "y = [1, 2, 3]\n"
)

# (statement lines, has an observable effect that the trailing observers expose)
PROBES: List[List[str]] = [
    ["q = q + 1"], ["q += 2"], ["q, r = r, q"], ["r = 5"], ["y[0] = 9"], ["q = r = 7"], ["pass"], ["global q"], ['"docstring"'], ["print(q)"], ["..."],
    ["if q > 2: q = 0"], ["for i in range(2): q += 1"], ["while q < 9: q += 5"], ["led.on()"], ["led.set_brightness(7)"], ["led.flash()"], ["nosuch.toggle()"], ["del r"], ["assert q > 0"],
    ["n2: int = 5", "q = n2"], ["q = (lambda v: v + 1)(q)"], ["y.append(4)"], ["y.insert(0, 8)"], ["y.pop()"], ["y.sort()"], ["y.extend([5])"], ["y.clear()"], ["y.reverse()"],
    ["mon.write(q)"], ["sleep(3)"], ["q = q if q > 3 else 3"], ["x9, *rest = 1, 2, 3"], ["import os"], ["from os import path"], ["q = abs(q) ; r = 2"], ["q = 1; r = q"],
    ["with open(\"f\") as fh:", "    q = 1"], ["class K:", "    pass"], ["try:", "    q = 4", "finally:", "    r = 6"], ["while q < 3:", "    q += 1", "else:", "    r = 9"],
    ["for i in y:", "    q += i"], ["q = sum(y)"], ["q = y[1:2][0]"], ["led.toggle() if q else led.off()"], ["q = r = 0 if False else 1"], ["raise ValueError(\"x\")"], ["return"],
    ["if q > 100:", "    r = 1", "elif q > 2:", "    pass", "else:", "    r = 3"],
    ["if q > 100:", "    r = 1", "elif q > 2:", "    print(q)", "elif q > 1:", "    r = 4", "else:", "    r = 3"],
    ["if q > 100:", "    r = 1", "elif q > 2:", '    "nothing to do"', "else:", "    r = 3"],
    ["if q > 2:", "    pass", "else:", "    r = 3"],
    ["for i in range(2):", "    pass", "r = 5"],
    ["while q > 100:", "    pass", "r = 6"],
    ["if q > 2:", "    global r", "    r = 8"],
    ['"""two', 'lines"""', "q = q + 1"], ["'''a", "b", "c'''", "led.on()"], ["from Reduino.Core import (", "    pin_mode,", "    OUTPUT)", "q = q + 1"],
    ["import os, \\", "    sys", "r = 5"], ['"""one line"""', "q = q + 1"], ["from Reduino.Utils import (sleep,", "    map)", "led.set_brightness(7)"],
    ['"doc"; q = q + 1'], ["import time; q += 1"], ["pass; led.on()"], ["led.on(); pass"], ["from os import path; r = 5"], ['"a"; "b"'], ["print(q); q += 1"], ["...; r = 5"], ["global q; q = 9"],
    ['"""two', 'lines""" ; q = q + 1'], ["from Reduino.Utils import (sleep,", "    map); led.set_brightness(7)"], ['"""a', 'b"""; r = 5; q = 2'],
    ['zs = "see target(COM9)"', "r = len(zs)"], ["mon.write(\"target('COM7')\")", "r = 4"], ['led.set_brightness(len("target(COM5)"))'],
    ["sv = Servo(10)", "sv.write(30)"], ["mon.write(f\"{q}\") ; q += 1"], ["r += 1  # trailing"], ["    "], ["# only a comment"], ["q = 3 \\", "    + 4"], ["mon.write(", "    q)"], ["y = [", "    7,", "    8]"],
]
# identifiers that merely START with a keyword / a name the line-oriented parser reacts to
_PREFIXES = ["global", "pass", "import", "return", "break", "continue", "def", "if", "while", "for", "try", "else", "elif", "except", "print", "from", "target", "sleep", "not", "and",
             "in", "is", "lambda", "del", "assert", "with", "class", "raise", "True", "None", "nonlocal", "finally", "or", "as"]
for _kw in _PREFIXES:
    PROBES.append([f"{_kw}_v = q + 1", f"q = {_kw}_v"])
    PROBES.append([f"{_kw}x = 2", f"r = {_kw}x + q"])
OBSERVE = ["mon.write(q)", "mon.write(r)", "mon.write(y[0])", "mon.write(len(y))", "mon.write(led.get_brightness())"]
SCOPE_WRAPS = {
    "top": lambda s: (s, None),
    "if": lambda s: (["if a >= 0:"] + common.indent(s), None),
    "else": lambda s: (["if a < 0:", "    r = 0 - 1", "else:"] + common.indent(s), None),
    "while": lambda s: (["kk = 0", "while kk < 1:", "    kk += 1"] + common.indent(s), None),
    "for": lambda s: (["for ii in range(1):"] + common.indent(s), None),
    "def": lambda s: (["def helper():", "    global q", "    global r"] + common.indent(s) + ["helper()"], None),
    "loop": lambda s: ([], s),
    "nested": lambda s: ([], ["if a >= 0:", "    for ii in range(1):"] + common.indent(s, 2)),
}


def accounting_cases() -> List[dict]:
    out = []
    for pi, probe in enumerate(PROBES):
        for sname, wrap in SCOPE_WRAPS.items():
            setup, loop = wrap(list(probe))
            pre = ["r = 1"]
            first = probe[0].split(" = ")[0] if " = " in probe[0] else ""
            if first.isidentifier() and any(first.startswith(kw) and first != kw for kw in _PREFIXES) and first not in ("r", "q"):
                # the name exists beforehand, so a vanished assignment shows as a wrong value, not as a build error
                pre.append(f"{first} = 0")
            if loop is None:
                src = common.script(pre + setup + OBSERVE, None, prologue=PRO)
                passes = 0
            else:
                src = common.script(pre + setup, loop + OBSERVE, prologue=PRO)
                passes = 2
            out.append({"id": f"A:{pi}:{sname}", "space": "A", "src": src, "runs": [{"passes": passes, "ar": {"A0": [4]}}], "probe": probe, "scope": sname})
    return out


# whole scripts (differential): block structure where two constructs meet
W_SCRIPTS = {
    "forward_trailing_block": ["def run(n):", "    pulse(n * 0.5)", "    pulse(n)", "def pulse(k):", "    mon.write(k)", "    for i in range(2):", "        led.toggle()", "        mon.write(i + k)", "run(2)", "run(a)"],
    "forward_trailing_if": ["def run(n):", "    return check(n) + check(n * 0.5)", "def check(k):", "    t = 0", "    if k > 1:", "        t = 5", "        mon.write(k)", "    return t", "mon.write(run(a))"],
    "forward_trailing_while": ["def run(n):", "    spin(n)", "    spin(n + 0.5)", "def spin(k):", "    j = 0", "    while j < 2:", "        j += 1", "        mon.write(j + k)", "run(1)"],
}
for _oc, _ic in itertools.product(("a > 3", "a > 5", "a < 9"), ("a > 5", "a == 4", "a > 1")):
    W_SCRIPTS[f"nested_if_else:{_oc}:{_ic}"] = [f"if {_oc}:", f"    if {_ic}:", '        mon.write("inner")', "else:", '    mon.write("outer-else")', 'mon.write("end")']
    W_SCRIPTS[f"nested_if_elif:{_oc}:{_ic}"] = [f"if {_oc}:", f"    if {_ic}:", "        led.on()", "elif a > 0:", "    led.set_brightness(7)", "else:", "    led.off()", "mon.write(led.get_brightness())"]
    W_SCRIPTS[f"nested_if_else_fn:{_oc}:{_ic}"] = ["def show(a):", f"    if {_oc}:", f"        if {_ic}:", '            mon.write("inner")', "    else:", '        mon.write("outer-else")', "show(a)", "show(a + 2)"]
    W_SCRIPTS[f"nested_both_else:{_oc}:{_ic}"] = [f"if {_oc}:", f"    if {_ic}:", '        mon.write("ii")', "    else:", '        mon.write("ie")', "else:", '    mon.write("oe")']
    W_SCRIPTS[f"for_if_else:{_oc}:{_ic}"] = ["for i in range(2):", f"    if {_oc}:", f"        if {_ic}:", "            mon.write(i)", "    else:", "        mon.write(9)"]


def whole_script_cases() -> List[dict]:
    out = []
    for name, lines in W_SCRIPTS.items():
        for placement in ("setup", "loop"):
            src = common.script(lines, None, prologue=PRO) if placement == "setup" else common.script([ln for ln in lines if ln.startswith(("def ", "    ")) and lines[0].startswith("def ")] if False else [], lines, prologue=PRO)
            if placement == "loop" and any(ln.startswith("def ") for ln in lines):
                continue
            out.append({"id": f"W:{name}:{placement}", "space": "A", "src": src, "runs": [{"passes": 0 if placement == "setup" else 2, "ar": {"A0": [v]}} for v in (2, 4, 6)], "probe": lines, "scope": placement})
    return out


def _allowed_ignored(line: str, reason: str) -> bool:
    text = line.strip()
    if reason in ("print", "constant-expression"):
        return True
    if not text or text.startswith("#"):
        return True
    try:
        node = ast.parse(text).body
    except SyntaxError:
        return False
    if not node:
        return True
    first = node[0]
    if isinstance(first, (ast.Import, ast.ImportFrom, ast.Pass, ast.Global, ast.Nonlocal)):
        return True
    if isinstance(first, ast.Expr) and isinstance(first.value, ast.Constant):
        return True
    if isinstance(first, ast.Expr) and isinstance(first.value, ast.Call) and isinstance(first.value.func, ast.Name) and first.value.func.id in ("target", "print"):
        return True
    return False


def hook_audit(case: dict) -> Optional[str]:
    """Transpile with the hook on and audit the silently skipped lines."""
    os.environ["REDUINO_VERIF"] = "1"
    import Reduino.transpile.parser as P
    from Reduino.transpile.emitter import emit

    log = getattr(P, "_VERIF_IGNORED", None)
    if log is None:
        return None  # hook not present in this tree: the black-box oracle still applies
    del log[:]
    try:
        emit(P.parse(case["src"]))
    except Exception:  # noqa: BLE001 - rejected scripts are fine here
        del log[:]
        return None
    bad = [(scope, depth, line, reason) for scope, depth, line, reason in log if not _allowed_ignored(line, reason)]
    del log[:]
    if bad:
        return f"lines skipped without a diagnostic: {bad[:3]}"
    return None


def judge(case, tr, dev_runs, host_runs):
    from rmc.pipeline import default_judge

    if tr.status == "ok":
        err = hook_audit(case)
        if err:
            return "violation", err
    outcome, detail = default_judge(case, tr, dev_runs, host_runs, check_lcd=False)
    if outcome == "nocompile":
        return "nocompile", detail
    return outcome, detail


# ------------------------------------------------------------------------------------------
# layout
# ------------------------------------------------------------------------------------------
HEAD = (
    "from Reduino import target\n"
    'target("COM3")\n'
    "from Reduino.Actuators import Led, RGBLed\n"
    "from Reduino.Sensors import Button\n"
    "from Reduino.Displays import LCD\n"
    "from Reduino.Communication import SerialMonitor\n"
    "from Reduino.Core import analog_read\n"
    "from Reduino.Utils import sleep\n"
)
CORPUS: Dict[str, str] = {
    "basic": HEAD + 'mon = SerialMonitor(9600)\nled = Led(13)\nx = 1\nwhile True:\n    led.toggle()\n    x = x + 1\n    mon.write(x)\n    sleep(250)\n',
    "branches": HEAD + 'mon = SerialMonitor(9600)\na = analog_read("A0")\nif a > 5:\n    mon.write("hi")\n    b = 1\nelif a > 2:\n    mon.write("mid")\n    b = 2\nelse:\n    mon.write("lo")\n    b = 3\nmon.write(b)\n',
    "loops": HEAD + 'mon = SerialMonitor(9600)\nt = 0\nfor i in range(3):\n    t = t + i\n    if i == 1:\n        continue\n    mon.write(i)\nk = 0\nwhile k < 4:\n    k += 1\n    if k == 3:\n        break\nmon.write(t + k)\n',
    "functions": HEAD + 'mon = SerialMonitor(9600)\ndef add(p, q):\n    s = p + q\n    return s\ndef show(v):\n    if v > 2:\n        mon.write(v)\n    else:\n        mon.write(0)\nshow(add(1, 2))\nwhile True:\n    show(add(2, 2))\n',
    "nested_loop": HEAD + 'mon = SerialMonitor(9600)\nled = Led(9)\nn = 0\nwhile True:\n    n += 1\n    if n % 2 == 0:\n        for j in range(2):\n            if j == 1:\n                led.on()\n            else:\n                led.off()\n        mon.write(n)\n    else:\n        led.set_brightness(n)\n    sleep(10)\n',
    "keyword_prefixed": HEAD + 'mon = SerialMonitor(9600)\nelse_led = Led(9)\nexcept_cnt = 1\nfinally_x = except_cnt + 1\nelif_v = 2\nelse_led.on()\nelse_led.set_brightness(elif_v + finally_x)\nmon.write(finally_x)\nwhile True:\n    else_led.toggle()\n    except_cnt += 1\n    mon.write(except_cnt)\n',
    "try": HEAD + 'mon = SerialMonitor(9600)\nv = 1\ntry:\n    v = v + 1\n    mon.write(v)\nexcept:\n    v = 0\nmon.write(v)\nwhile True:\n    try:\n        v += 1\n    except:\n        v = 9\n    mon.write(v)\n',
    "devices": HEAD + 'mon = SerialMonitor(9600)\nrgb = RGBLed(3, 5, 6)\nlcd = LCD(i2c_addr=39)\ndef hit():\n    mon.write("hit")\nbtn = Button(7, on_click=hit)\nlcd.line(0, "a # not a comment")\nwhile True:\n    if btn.is_pressed():\n        rgb.set_color(1, 2, 3)\n    else:\n        rgb.off()\n    lcd.write(0, 1, "x", align="right")\n',
    "strings": HEAD + 'mon = SerialMonitor(9600)\ns = "a#b"\nmon.write(s)\nmon.write("it\'s # fine")\nmon.write(f"{s}: # {1 + 2}")\nw = \'q"#\'\nmon.write(w + "\\\\")\nwhile True:\n    mon.write("#")\n',
    "lists": HEAD + 'mon = SerialMonitor(9600)\nitems = [1, 2, 3]\nitems.append(4)\nfor i in range(len(items)):\n    mon.write(items[i])\nwhile True:\n    items.remove(items[0])\n    items.append(7)\n    mon.write(items[-1])\n',
    "constants": HEAD + 'mon = SerialMonitor(9600)\na = analog_read("A0")\nv1 = 200\nw = [1, 0, 1]\nfor i in range(2):\n    w.append(5)\n    v1 = v1 + 1\nmon.write(len(w))\nsleep(v1)\nv2 = 50\nif a > 3:\n    v2 = 120\nelse:\n    w.append(7)\nsleep(v2)\nmon.write(len(w))\nv3 = 5\nk = 0\nwhile k < 2:\n    k += 1\n    v3 = v3 * 2\nsleep(v3)\nv4 = 9\nwhile True:\n    sleep(v4)\n    if a > 5:\n        v4 = 7\n    mon.write(len(w))\n    w.append(1)\n',
    "helper_locals": HEAD + 'mon = SerialMonitor(9600)\nled = Led(9)\nlevel = 200\ncount = 3\ndef dim():\n    level = 5\n    led.set_brightness(level)\n    for count in range(2):\n        mon.write(count)\n    return level\ndef bump():\n    global count\n    count = count + 1\n    lo, hi = 1, 2\n    return lo + hi\ndim()\nbump()\nled.set_brightness(level)\nwhile True:\n    mon.write(count + level)\n    bump()\n',
    "forward_helpers": HEAD + 'mon = SerialMonitor(9600)\nled = Led(9)\ndef run(n):\n    pulse(n * 0.5)\n    pulse(n)\ndef pulse(k):  # forward\n    mon.write(k)\n    for i in range(2):\n        led.toggle()\n        sleep(k)\nrun(2)\nwhile True:\n    run(3)\n',
    "setup_only": HEAD + 'mon = SerialMonitor(9600)\nled = Led(4)\nled.blink(5, times=2)\na, b = 1, 2\na, b = b, a\nmon.write(a - b)\n',
}

COMMENT = "# note: while True: if x: else: def f(): led.on()"
# comment texts that look like something the line-oriented parser reacts to
COMMENTS = [COMMENT, '# target("COM9")', '# bench 2 used target("COM4") before', "# x = 1; y = 2", "# import os", '# "unterminated', "# it's", "# def f():", "# end }", "# \\", "# sleep(5)", "#", "# elif x:", "# except:", "#!shebang", "# -*- coding: utf-8 -*-"]


def _indents(lines: Sequence[str]) -> List[str]:
    cols = sorted({len(l) - len(l.lstrip(" ")) for l in lines if l.strip()})
    out = set()
    for c in cols:
        for d in (-1, 0, 1):
            if c + d >= 0:
                out.add(c + d)
    out.add(max(cols) + 4)
    return [" " * c for c in sorted(out)]


def single_edits(src: str, tier: str) -> Iterator[Tuple[str, str]]:
    lines = src.split("\n")
    if lines and lines[-1] == "":
        lines = lines[:-1]
    n = len(lines)
    pads = _indents(lines)
    # comment line at every index x column
    for i in range(n + 1):
        for pad in pads:
            yield f"comment@{i}:{len(pad)}", "\n".join(lines[:i] + [pad + COMMENT] + lines[i:]) + "\n"
        yield f"comment-tab@{i}", "\n".join(lines[:i] + ["\t" + COMMENT] + lines[i:]) + "\n"
    # trailing comment on every line
    for i in range(n):
        if lines[i].strip():
            yield f"trailing@{i}", "\n".join(lines[:i] + [lines[i] + "  " + COMMENT] + lines[i + 1:]) + "\n"
            yield f"trailing-tight@{i}", "\n".join(lines[:i] + [lines[i] + "#c"] + lines[i + 1:]) + "\n"
            for ci, text in enumerate(COMMENTS[1:]):
                yield f"trailing-text{ci}@{i}", "\n".join(lines[:i] + [lines[i] + "  " + text] + lines[i + 1:]) + "\n"
    # comment lines with every text at the indentation of the following / preceding line
    for i in range(n + 1):
        near = {len(l) - len(l.lstrip(" ")) for l in lines[max(0, i - 1): i + 1] if l.strip()} | {0}
        for col in sorted(near):
            for ci, text in enumerate(COMMENTS[1:]):
                yield f"comment-text{ci}@{i}:{col}", "\n".join(lines[:i] + [" " * col + text] + lines[i:]) + "\n"
    # redundant parentheses: block header conditions, right-hand sides, return values, single call arguments
    import re as _re
    for i in range(n):
        m = _re.match(r"^(\s*)(if|elif|while) (.+):\s*$", lines[i])
        if m:
            for form in (f"{m.group(1)}{m.group(2)} ({m.group(3)}):", f"{m.group(1)}{m.group(2)}({m.group(3)}):", f"{m.group(1)}{m.group(2)} ( {m.group(3)} ) :"):
                yield f"paren-header@{i}", "\n".join(lines[:i] + [form] + lines[i + 1:]) + "\n"
        m = _re.match(r"^(\s*)([A-Za-z_][\w, ]*) (=|\+=) (.+)$", lines[i])
        if m:
            yield f"paren-rhs@{i}", "\n".join(lines[:i] + [f"{m.group(1)}{m.group(2)} {m.group(3)} ({m.group(4)})"] + lines[i + 1:]) + "\n"
        m = _re.match(r"^(\s*)return (.+)$", lines[i])
        if m:
            yield f"paren-return@{i}", "\n".join(lines[:i] + [f"{m.group(1)}return ({m.group(2)})"] + lines[i + 1:]) + "\n"
        m = _re.match(r"^(\s*)([\w.]+)\(([^(),]+)\)$", lines[i])
        if m:
            yield f"paren-arg@{i}", "\n".join(lines[:i] + [f"{m.group(1)}{m.group(2)}(({m.group(3)}))"] + lines[i + 1:]) + "\n"
    # blank / whitespace-only line at every index
    for i in range(n + 1):
        for blank in ("", " ", "    ", "        ", "\t"):
            yield f"blank@{i}:{len(blank)}", "\n".join(lines[:i] + [blank] + lines[i:]) + "\n"
    # trailing whitespace on every line
    for i in range(n):
        for ws in (" ", "   ", "\t"):
            yield f"trailws@{i}", "\n".join(lines[:i] + [lines[i] + ws] + lines[i + 1:]) + "\n"
    # re-indentation
    for unit in ("1", "2", "3", "8", "tab"):
        new = []
        for l in lines:
            k = (len(l) - len(l.lstrip(" "))) // 4
            new.append((("\t" if unit == "tab" else " " * int(unit)) * k) + l.lstrip(" "))
        yield f"indent-{unit}", "\n".join(new) + "\n"
    # CRLF line endings and missing final newline
    yield "crlf", "\r\n".join(lines) + "\r\n"
    yield "no-final-newline", "\n".join(lines)
    # one optional space inserted / removed at every token boundary
    try:
        toks = list(tokenize.generate_tokens(io.StringIO(src).readline))
    except (tokenize.TokenError, IndentationError):
        toks = []
    seen = set()
    for t1, t2 in zip(toks, toks[1:]):
        if t1.end[0] != t2.start[0] or t2.type in (tokenize.NEWLINE, tokenize.NL, tokenize.COMMENT, tokenize.ENDMARKER, tokenize.INDENT, tokenize.DEDENT):
            continue
        row = t1.end[0] - 1
        c1, c2 = t1.end[1], t2.start[1]
        key = (row, c1, c2)
        if key in seen or row >= n:
            continue
        seen.add(key)
        line = lines[row]
        yield f"space+@{row}:{c1}", "\n".join(lines[:row] + [line[:c1] + " " + line[c1:]] + lines[row + 1:]) + "\n"
        if c2 > c1:
            yield f"space-@{row}:{c1}", "\n".join(lines[:row] + [line[:c1] + line[c2:]] + lines[row + 1:]) + "\n"
            if c2 - c1 == 1 and tier == "thorough":
                yield f"space2@{row}:{c1}", "\n".join(lines[:row] + [line[:c1] + "   " + line[c2:]] + lines[row + 1:]) + "\n"


def pair_edits(src: str) -> Iterator[Tuple[str, str]]:
    """All pairs of line-insertion edits (comment or blank at two indices)."""
    lines = src.split("\n")
    if lines and lines[-1] == "":
        lines = lines[:-1]
    n = len(lines)
    pads = _indents(lines)[::2]
    inserts = [pad + COMMENT for pad in pads] + ["", "    "]
    for i, j in itertools.combinations(range(n + 1), 2):
        for x in inserts:
            for y in inserts[:3]:
                new = lines[:i] + [x] + lines[i:j] + [y] + lines[j:]
                yield f"pair@{i},{j}", "\n".join(new) + "\n"


def _transpile(src: str):
    from Reduino.transpile.emitter import emit
    from Reduino.transpile.parser import parse

    try:
        return "ok", emit(parse(src))
    except (ValueError, SyntaxError) as exc:
        return "reject", f"{type(exc).__name__}"
    except Exception as exc:  # noqa: BLE001
        return "crash", f"{type(exc).__name__}: {exc}"


def _layout_worker(args) -> dict:
    name, src, tier, pairs = args
    base_dump = ast.dump(ast.parse(src))
    base = _transpile(src)
    stats = {"name": name, "variants": 0, "admitted": 0, "violations": [], "base": base[0]}
    edits = itertools.chain(single_edits(src, tier), pair_edits(src) if pairs else [])
    seen = set()
    for label, variant in edits:
        if variant in seen:
            continue
        seen.add(variant)
        stats["variants"] += 1
        try:
            if ast.dump(ast.parse(variant)) != base_dump:
                continue
        except (SyntaxError, ValueError):
            continue
        stats["admitted"] += 1
        got = _transpile(variant)
        if got[0] == "crash" or got != base:
            if len(stats["violations"]) < 25:
                why = "transpiler crashed" if got[0] == "crash" else ("variant rejected, base accepted" if got[0] != base[0] and got[0] == "reject" else "base rejected, variant accepted" if got[0] != base[0] else "different firmware")
                first = ""
                if got[0] == base[0] == "ok":
                    first = next((f"{x!r} vs {y!r}" for x, y in zip(base[1].splitlines(), got[1].splitlines()) if x != y), "length differs")
                stats["violations"].append({"script": name, "edit": label, "why": why, "first_diff": first, "variant": variant})
    return stats


def handler_twins(report: Report) -> None:
    """An exception handler never runs in the mock, so what a statement becomes INSIDE a handler is compared with what the
    same statement becomes inside an `if` that is never taken: the two sketches must consist of the same lines (file-scope
    declarations included) apart from the lines of the two wrappers."""
    from collections import Counter

    def body_lines(text: str, drop) -> Counter:
        lines = [ln.strip() for ln in text.splitlines() if ln.strip()]
        return Counter(ln for ln in lines if not any(d(ln) for d in drop))

    for placement in ("setup", "loop", "helper"):
        for pi, probe in enumerate(PROBES):
            pre = ["r = 1", "zz = 0"]
            t_block = ["try:", "    zz = a"] + ["except:"] + common.indent(list(probe))
            i_block = ["zz = a", "if a > 99:"] + common.indent(list(probe))
            srcs = []
            for block in (t_block, i_block):
                if placement == "setup":
                    srcs.append(common.script(pre + block + OBSERVE, None, prologue=PRO))
                elif placement == "loop":
                    srcs.append(common.script(pre, block + OBSERVE, prologue=PRO))
                else:
                    srcs.append(common.script(pre + ["def helper():", "    global q", "    global r", "    global zz"] + common.indent(block) + ["helper()"] + OBSERVE, None, prologue=PRO))
            results = [device.transpile(x) for x in srcs]
            report.evaluations += 1
            if any(r.status != "ok" for r in results):
                report.outcomes["twin_rejected" if all(r.status != "ok" for r in results) else "twin_one_rejected"] += 1
                continue
            # (closing braces are not compared: the two wrappers own a different number of them)
            t_lines = body_lines(results[0].cpp, [lambda ln: ln in ("try {", "} catch (...) {", "catch (...) {", "}")])
            i_lines = body_lines(results[1].cpp, [lambda ln: ln.startswith("if ((a > 99))") or ln.startswith("if (a > 99)") or ln == "}"])
            if t_lines == i_lines:
                report.outcomes["twin_same"] += 1
                continue
            only_t = sorted((t_lines - i_lines).elements())
            only_i = sorted((i_lines - t_lines).elements())
            report.outcomes["violation"] += 1
            key = explore.history_key(ID, "handler-twin", [("probe", (placement, "\n".join(probe)), {})])
            report.violation(key, f"handler twin [{placement}] probe {probe}: inside 'except:' the statement becomes {only_t[:4]}, inside a branch {only_i[:4]}",
                             {"twin": True, "placement": placement, "probe": probe, "try_src": srcs[0], "if_src": srcs[1]})


def main(tier: str, seed: int, only=None) -> int:
    report = Report(ID, LEVEL, tier, seed)
    os.environ["REDUINO_VERIF"] = "1"
    if not only or "A" in only:
        # a sketch that does not compile is C06's business; here a statement must not vanish silently
        common.drive(report, MOD, accounting_cases() + whole_script_cases(), opts={"host_timeout": 5.0}, batch_size=40, bad=("violation", "transpile_crash", "transpile_timeout"))
    if not only or "X" in only:
        handler_twins(report)
    layout_stats = {}
    if not only or "L" in only:
        jobs = [(name, src, tier, tier == "thorough") for name, src in CORPUS.items()]
        results = pipeline.pool().imap_unordered(_layout_worker, jobs) if pipeline.WORKERS > 1 else map(_layout_worker, jobs)
        for st in results:
            layout_stats[st["name"]] = {k: st[k] for k in ("variants", "admitted", "base")}
            report.evaluations += st["admitted"]
            report.outcomes["layout_admitted"] += st["admitted"]
            report.outcomes["layout_not_meaning_preserving"] += st["variants"] - st["admitted"]
            for i in range(st["admitted"]):
                report.distinct.add((st["name"], i))
            for v in st["violations"]:
                key = explore.history_key(ID, "layout", [(v["script"], (v["edit"], v["variant"]), {})])
                report.violation(key, f"layout: script {v['script']!r}, edit {v['edit']}: {v['why']} {v['first_diff']}", {"layout": True, "script": v["script"], "edit": v["edit"], "base": CORPUS[v["script"]], "variant": v["variant"]})
    report.extra_cov["layout"] = layout_stats
    report.bounds = {"accounting": f"{len(PROBES)} probe statements x {len(SCOPE_WRAPS)} scopes", "layout": f"{len(CORPUS)} base scripts x every single edit (comment/blank at every index x column, trailing comment, trailing whitespace, re-indent, CRLF, token-boundary spaces)" + ("; all pairs of line insertions" if tier == "thorough" else "")}
    report.add_sample({"accounting": {"probe": PROBES[4], "scope": "loop"}})
    report.add_sample({"layout_edit": "trailing comment on `else:` inside the main loop"})
    return report.finish(
        rule="accounting: complete product probe x scope with the hook audit and the differential oracle; layout: every single meaning-preserving edit (admitted iff CPython's AST is unchanged) must give byte-identical firmware; distinct = admitted layout variants + distinct firmware texts",
        assumptions=evidence.COMMON_ASSUMPTIONS + ["indentation in the base corpus uses 4 spaces per level; re-indentation maps each level to 1/2/3/8 spaces or one tab"],
    )


def replay(path: str) -> int:
    data = json.loads(open(path).read())
    if data.get("layout"):
        base, var = _transpile(data["base"]), _transpile(data["variant"])
        print("replay: base", base[0], "variant", var[0])
        if var[0] == "crash" or base != var:
            print(f"VIOLATION property={ID} replay={path}")
            return 1
        return 0
    if data.get("twin"):
        report = Report(ID, LEVEL, "quick", 0)
        handler_twins(report)
        hit = [v for v in report.violations if v["key"] == data.get("key")]
        print("replay:", "differs" if hit else "same lines")
        if hit:
            print(f"VIOLATION property={ID} replay={path}")
            return 1
        return 0
    os.environ["REDUINO_VERIF"] = "1"
    return common.replay_program(ID, MOD, path, bad=("violation", "nocompile"))
