"""C08 — device calls bind arguments exactly like the Python signatures do.

For every constructor / method / Core helper the signature is read with inspect.signature from the host
class of the working tree, and EVERY call shape Python accepts is generated: every split point between
positional and keyword arguments, every permutation of the keyword part (all permutations up to 4
keywords, rotations + reversal beyond), every subset of omitted defaults (all subsets up to 4 optional
parameters; none / all / singles / all-but-one beyond).  Oracles:
  (a) Python's own binder (Signature.bind) gives parameter -> value; the IR node the transpiler builds
      must carry exactly those values (by field name; a short table for renamed fields);
  (b) all accepted shapes with the same binding must produce byte-identical firmware.
"""
from __future__ import annotations

import ast
import inspect
import itertools
import json
from typing import Any, Dict, Iterator, List, Optional, Sequence, Tuple

from rmc import explore, pipeline
from rmc.runner import Report

ID = "C08"
LEVEL = "exploration"
MOD = "checks.c08"

IMPORTS = (
    "from Reduino import target\n"
    'target("COM3")\n'
    "from Reduino.Actuators import Led, RGBLed, Servo, DCMotor, Buzzer\n"
    "from Reduino.Sensors import Button, Potentiometer, Ultrasonic\n"
    "from Reduino.Displays import LCD\n"
    "from Reduino.Communication import SerialMonitor\n"
    "from Reduino.Core import pin_mode, digital_write, analog_write, digital_read, analog_read, OUTPUT, INPUT, HIGH, LOW\n"
    "from Reduino.Utils import sleep\n"
    "def hit():\n"
    "    sleep(1)\n"
)

IGNORED = {"state_provider", "value_provider", "distance_provider", "default_distance", "port", "timeout", "newline", "sleep_func", "model"}

# values are Python source fragments; distinct, in range, never equal to a default
VALUES: Dict[str, str] = {
    "pin": "7", "value": "21", "duration_ms": "31", "times": "3", "step": "9", "delay_ms": "13", "pattern": "[1, 0, 1]",
    "red_pin": "3", "green_pin": "5", "blue_pin": "6", "red": "41", "green": "42", "blue": "43", "steps": "4",
    "min_angle": "15", "max_angle": "165", "min_pulse_us": "600", "max_pulse_us": "2300", "angle": "77", "pulse": "1234",
    "in1": "22", "in2": "23", "enable": "24", "speed": "0.5", "target_speed": "0.25",
    "default_frequency": "880", "frequency": "660", "on_ms": "51", "off_ms": "52", "start_hz": "300", "end_hz": "900", "name": '"siren"', "tempo": "150",
    "on_click": "hit", "trig": "26", "echo": "27", "sensor": '"HC-SR04"',
    "rs": "30", "en": "31", "d4": "32", "d5": "33", "d6": "34", "d7": "35", "cols": "20", "rows": "4", "rw": "36", "backlight_pin": "10", "i2c_addr": "39",
    "col": "2", "row": "1", "text": '"T1"', "clear_row": "False", "align": '"right"', "top": '"TP"', "bottom": '"BT"', "top_align": '"center"', "bottom_align": '"right"',
    "clear_rows": "False", "on": "False", "level": "99", "slot": "2", "bitmap": "[1, 2, 3, 4, 5, 6, 7, 8]", "max_value": "50", "width": "8", "style": '"hash"', "label": '"LB"',
    "animation": '"blink"', "speed_ms": "120", "loop": "True", "baud_rate": "57600", "mode": "OUTPUT", "duration": "45",
}
OVERRIDE = {("Potentiometer", "__init__", "pin"): '"A2"', ("LCD", "progress", "value"): "25", ("LCD", "progress", "row"): "1", ("analog_write", "", "value"): "200",
            ("digital_write", "", "value"): "HIGH", ("DCMotor", "set_speed", "value"): "0.75", ("Servo", "__init__", "pin"): "9", ("Buzzer", "__init__", "pin"): "8",
            ("SerialMonitor", "write", "value"): "55", ("Led", "set_brightness", "value"): "201"}

# (class, method) -> (IR node class name, {param: field}, declaration lines needed before the call, receiver)
DECLS = {
    "Led": "led = Led(13)", "RGBLed": "rgb = RGBLed(3, 5, 6)", "Servo": "sv = Servo(9)", "DCMotor": "m = DCMotor(22, 23, 24)", "Buzzer": "bz = Buzzer(8)",
    "LCD": "lcd = LCD(rs=30, en=31, d4=32, d5=33, d6=34, d7=35, backlight_pin=10)", "SerialMonitor": "mon = SerialMonitor(9600)",
}
RECV = {"Led": "led", "RGBLed": "rgb", "Servo": "sv", "DCMotor": "m", "Buzzer": "bz", "LCD": "lcd", "SerialMonitor": "mon"}

CATALOGUE: List[Tuple[str, str, str, Dict[str, str]]] = [
    ("Led", "__init__", "LedDecl", {}),
    ("Led", "set_brightness", "LedSetBrightness", {}),
    ("Led", "blink", "LedBlink", {}),
    ("Led", "fade_in", "LedFadeIn", {}),
    ("Led", "fade_out", "LedFadeOut", {}),
    ("Led", "flash_pattern", "LedFlashPattern", {}),
    ("RGBLed", "__init__", "RGBLedDecl", {}),
    ("RGBLed", "set_color", "RGBLedSetColor", {}),
    ("RGBLed", "on", "RGBLedOn", {}),
    ("RGBLed", "fade", "RGBLedFade", {}),
    ("RGBLed", "blink", "RGBLedBlink", {}),
    ("Servo", "__init__", "ServoDecl", {}),
    ("Servo", "write", "ServoWrite", {}),
    ("Servo", "write_us", "ServoWriteMicroseconds", {"pulse": "pulse_us"}),
    ("DCMotor", "__init__", "DCMotorDecl", {}),
    ("DCMotor", "set_speed", "DCMotorSetSpeed", {"value": "speed"}),
    ("DCMotor", "backward", "DCMotorBackward", {}),
    ("DCMotor", "ramp", "DCMotorRamp", {}),
    ("DCMotor", "run_for", "DCMotorRunFor", {}),
    ("Buzzer", "__init__", "BuzzerDecl", {}),
    ("Buzzer", "play_tone", "BuzzerPlayTone", {}),
    ("Buzzer", "beep", "BuzzerBeep", {}),
    ("Buzzer", "sweep", "BuzzerSweep", {}),
    ("Buzzer", "melody", "BuzzerMelody", {"name": "melody"}),
    ("Button", "__init__", "ButtonDecl", {}),
    ("Potentiometer", "__init__", "PotentiometerDecl", {}),
    ("Ultrasonic", "__init__", "UltrasonicDecl", {"sensor": "model"}),
    ("LCD", "__init__", "LCDDecl", {}),
    ("LCD", "write", "LCDWrite", {}),
    ("LCD", "line", "LCDLine", {}),
    ("LCD", "message", "LCDMessage", {}),
    ("LCD", "display", "LCDDisplay", {}),
    ("LCD", "backlight", "LCDBacklight", {}),
    ("LCD", "brightness", "LCDBrightness", {}),
    ("LCD", "glyph", "LCDGlyph", {}),
    ("LCD", "progress", "LCDProgress", {}),
    ("LCD", "animate", "LCDAnimate", {}),
    ("SerialMonitor", "__init__", "SerialMonitorDecl", {"baud_rate": "baud"}),
    ("SerialMonitor", "write", "SerialWrite", {}),
    ("sleep", "", "Sleep", {"duration": "ms"}),
    ("pin_mode", "", "", {}),
    ("digital_write", "", "", {}),
    ("analog_write", "", "", {}),
    ("digital_read", "", "", {}),
    ("analog_read", "", "", {}),
]


def _callable(cls: str, meth: str):
    import Reduino.Actuators as A
    import Reduino.Communication as C
    import Reduino.Core as K
    import Reduino.Displays as D
    import Reduino.Sensors as S
    import Reduino.Utils as U

    for mod in (A, S, D, C):
        if hasattr(mod, cls):
            obj = getattr(mod, cls)
            if inspect.isclass(obj):
                return getattr(obj, meth), True
            return obj, False  # factory function (Ultrasonic)
    if hasattr(K, cls):
        return getattr(K, cls), False
    return getattr(U, cls), False


RT_MODE = False  # thorough tier: numeric arguments are run-time variables instead of literals


def _is_number(text: Optional[str]) -> bool:
    try:
        float(text)
        return True
    except (TypeError, ValueError):
        return False


def _value(cls, meth, param) -> Optional[str]:
    lit = OVERRIDE.get((cls, meth, param), VALUES.get(param))
    if RT_MODE and _is_number(lit) and not (cls == "LCD" and meth == "__init__") and param not in ("min_angle", "max_angle", "min_pulse_us", "max_pulse_us"):
        # "same": the run-time variable is named exactly like the parameter it is passed to (frequency, duration_ms, ...)
        return param if RT_MODE == "same" else f"rv_{param}"
    return lit


def _perms(items: Sequence[str]) -> List[Tuple[str, ...]]:
    items = list(items)
    if len(items) <= 4:
        return list(itertools.permutations(items))
    out = [tuple(items[i:] + items[:i]) for i in range(len(items))]
    out.append(tuple(reversed(items)))
    return list(dict.fromkeys(out))


def _subsets(optional: Sequence[str]) -> List[Tuple[str, ...]]:
    optional = list(optional)
    if len(optional) <= 4:
        return [c for r in range(len(optional) + 1) for c in itertools.combinations(optional, r)]
    out = [(), tuple(optional)]
    out += [(o,) for o in optional]
    out += [tuple(x for x in optional if x != o) for o in optional]
    return list(dict.fromkeys(out))


def shapes(cls: str, meth: str) -> Iterator[dict]:
    fn, is_method = _callable(cls, meth)
    sig = inspect.signature(fn)
    params = [p for p in sig.parameters.values() if p.name != "self"]
    params = [p for p in params if p.name not in IGNORED]
    if cls == "LCD" and meth == "__init__":
        variants = [[p for p in params if p.name != "i2c_addr"], [p for p in params if p.name in ("i2c_addr", "cols", "rows")]]
    else:
        variants = [params]
    for vi, plist in enumerate(variants):
        required = [p.name for p in plist if p.default is inspect._empty or (cls == "LCD" and meth == "__init__" and p.name in ("rs", "en", "d4", "d5", "d6", "d7") and vi == 0) or (vi == 1 and p.name == "i2c_addr")]
        optional = [p.name for p in plist if p.name not in required]
        pos_capable = [p.name for p in plist if p.kind in (p.POSITIONAL_ONLY, p.POSITIONAL_OR_KEYWORD)]
        order = [p.name for p in plist]
        for subset in _subsets(optional):
            included = [n for n in order if n in required or n in subset]
            # positional prefix: leading pos-capable parameters, all of them included, in order
            max_prefix = 0
            for n in pos_capable:
                if n in included and order.index(n) == max_prefix and pos_capable.index(n) == max_prefix:
                    max_prefix += 1
                else:
                    break
            for k in range(0, max_prefix + 1):
                pos = included[:k]
                kws = included[k:]
                if any(n in [p.name for p in plist if p.kind == p.POSITIONAL_ONLY] for n in kws):
                    continue
                for perm in _perms(kws):
                    args_src = [_value(cls, meth, n) for n in pos] + [f"{n}={_value(cls, meth, n)}" for n in perm]
                    if any(a is None or a.endswith("=None") for a in args_src):
                        continue
                    binding = {n: _value(cls, meth, n) for n in included}
                    defaults = {}
                    for prm in plist:
                        if prm.name not in included and prm.default is not inspect._empty and isinstance(prm.default, (int, float, bool, str)):  # None defaults are resolved inside the host class
                            defaults[prm.name] = prm.default
                    base = {"cls": cls, "meth": meth, "args": ", ".join(args_src), "binding": binding, "defaults": defaults, "group": f"{cls}.{meth}/{vi}/{','.join(sorted(binding))}",
                            "n_pos": k, "kw_order": list(perm)}
                    yield base
                    if perm != tuple(kws):
                        continue
                    # an omitted parameter passed EXPLICITLY with its default value (None included) binds like the
                    # omission: accepted => same firmware as the shape without it (same group)
                    for prm in plist:
                        if prm.name in included or prm.default is inspect._empty or not isinstance(prm.default, (int, float, bool, str, type(None))):
                            continue
                        lit = repr(prm.default)
                        yield dict(base, args=", ".join(args_src + [f"{prm.name}={lit}"]), explicit_default=prm.name)
                        if not kws and prm.name in pos_capable and len(pos) == pos_capable.index(prm.name) and order.index(prm.name) == len(pos):
                            yield dict(base, args=", ".join(args_src + [lit]), explicit_default=prm.name)


def _is_rt(v) -> bool:
    return isinstance(v, str) and (v.startswith("rv_") or (v.isidentifier() and v in VALUES and v not in ("hit",)))


def script_for(shape: dict) -> Tuple[str, str]:
    cls, meth = shape["cls"], shape["meth"]
    lines: List[str] = []
    if meth == "":
        call = f"{cls}({shape['args']})"
        if cls in ("digital_read", "analog_read"):
            call = "got = " + call
        lines.append(call)
    elif meth == "__init__":
        lines.append(f"dev = {cls}({shape['args']})")
    else:
        lines.append(DECLS[cls])
        lines.append(f"{RECV[cls]}.{meth}({shape['args']})")
    rt_names = sorted({v for v in shape["binding"].values() if _is_rt(v)})
    pre = [f'{n} = analog_read("A0")' for n in rt_names] + list(shape.get("pre_lines", []))
    if shape.get("block_lines") is not None:
        # the call is the last statement of a block (parsed in one go with the statements before it)
        body = list(shape["block_lines"]) + [lines[-1]]
        return IMPORTS + "\n".join(pre + lines[:-1] + ["while True:"] + ["    " + ln for ln in body]) + "\n", lines[-1]
    return IMPORTS + "\n".join(pre + lines + list(shape.get("post_lines", []))) + "\n", lines[-1]


def _norm(v: Any) -> Any:
    if isinstance(v, bool) or v is None:
        return v
    if isinstance(v, (int, float)):
        return float(v)
    if isinstance(v, (list, tuple)):
        return [_norm(x) for x in v]
    s = str(v).strip()
    if s in ("true", "True"):
        return True
    if s in ("false", "False"):
        return False
    if len(s) >= 2 and s[0] == s[-1] and s[0] in "\"'":
        return s[1:-1]
    try:
        return float(s)
    except ValueError:
        return s


def _find_nodes(program, clsname: str) -> List[Any]:
    out = []

    def visit(nodes):
        for n in nodes:
            if type(n).__name__ == clsname:
                out.append(n)
            for attr in ("body", "else_body", "try_body"):
                if hasattr(n, attr):
                    visit(getattr(n, attr) or [])

    visit(program.setup_body)
    visit(program.loop_body)
    return out


def evaluate(shape: dict) -> dict:
    """Transpile one call shape; returns {'status', 'text', 'ir_error'}."""
    import ast as pyast
    from Reduino.transpile.emitter import emit
    from Reduino.transpile.parser import parse

    src, line = script_for(shape)
    try:
        program = parse(src)
        text = emit(program)
    except (ValueError, SyntaxError) as exc:
        return {"status": "reject", "detail": str(exc)[:120]}
    except Exception as exc:  # noqa: BLE001
        return {"status": "crash", "detail": f"{type(exc).__name__}: {exc}"[:200]}
    entry = next(e for e in CATALOGUE if e[0] == shape["cls"] and e[1] == shape["meth"])
    node_cls, renames = entry[2], entry[3]
    ir_error = None
    if node_cls:
        nodes = _find_nodes(program, node_cls)
        target = nodes[-1] if nodes else None
        if target is None:
            ir_error = f"no {node_cls} node produced for `{line}` (the call vanished)"
        else:
            for param in shape.get("none_defaults", []):
                field = renames.get(param, param)
                if hasattr(target, field) and getattr(target, field) not in (None, "None"):
                    ir_error = f"`{line}`: omitted parameter {param} (default None) holds {getattr(target, field)!r} in IR field {node_cls}.{field} (left over from an earlier statement?)"
            if shape.get("same_call_params"):
                texts = [str(getattr(target, renames.get(prm, prm))) for prm in shape["same_call_params"] if hasattr(target, renames.get(prm, prm))]
                temps = [t for t in texts if t.startswith("__redu_arg_")]
                if len(set(temps)) != len(temps):
                    ir_error = f"`{line}`: {len(temps)} parameters were each given their own call of the sensor, the IR binds them to {texts} (one evaluation shared)"
            for param, default in shape.get("defaults", {}).items():
                field = renames.get(param, param)
                if not hasattr(target, field) or ir_error:
                    continue
                got = _norm(getattr(target, field))
                if got != _norm(default) and not (default is None and got in (None, "None")):
                    ir_error = f"`{line}`: omitted parameter {param} should keep its default {default!r}, IR field {node_cls}.{field} holds {got!r}"
            for param, src_val in shape["binding"].items():
                if ir_error:
                    break
                field = renames.get(param, param)
                if not hasattr(target, field):
                    continue
                if shape.get("odd_param") == param:
                    # an unusual run-time expression: rejected, or carried into the IR (never replaced by a default)
                    got_text = str(getattr(target, field))
                    if not any(tok in got_text for tok in ("rv_mask", "lbl", "__redu_arg_")):
                        ir_error = f"`{line}`: parameter {param} was given the run-time expression {shape['odd_expr']!r}, IR field {node_cls}.{field} holds {got_text!r}"
                    continue
                if _is_rt(src_val) and param not in shape.get("expected", {}):
                    got_text = str(getattr(target, field))
                    import re as _re
                    names_in = set(_re.findall(r"rv_\w+", got_text)) if src_val.startswith("rv_") else {w for w in _re.findall(r"[A-Za-z_]\w*", got_text) if w in VALUES}
                    if names_in != {src_val}:
                        ir_error = f"`{line}`: parameter {param} should bind the run-time value {src_val}, IR field {node_cls}.{field} holds {got_text!r}"
                        break
                    continue
                if param in shape.get("expected", {}):
                    src_val = shape["expected"][param]
                want = _norm(pyast.literal_eval(src_val)) if src_val not in ("hit", "OUTPUT", "INPUT", "HIGH", "LOW") else src_val
                got = _norm(getattr(target, field))
                if src_val[:1] in "\"'" and isinstance(pyast.literal_eval(src_val), str):
                    # strings are compared exactly (blanks included)
                    want = pyast.literal_eval(src_val)
                    got = getattr(target, field)
                    if isinstance(got, str) and len(got) >= 2 and got[0] == got[-1] and got[0] in "\"'":
                        try:
                            got = pyast.literal_eval(got)
                        except Exception:  # noqa: BLE001
                            pass
                if got != want:
                    ir_error = f"`{line}`: parameter {param} should bind {want!r}, IR field {node_cls}.{field} holds {got!r}"
                    break
        if not ir_error and shape["cls"] == "LCD" and shape["meth"] == "__init__" and "rw" in shape["binding"] and not shape.get("odd_param") and all(_is_number(shape["binding"].get(k)) for k in ("rs", "rw", "en", "d4", "d5", "d6", "d7")):
            import re as _re

            b = shape["binding"]
            m = _re.search(r"LiquidCrystal\s+\w+\(([^)]*)\)", text)
            want_ctor = [b[k] for k in ("rs", "rw", "en", "d4", "d5", "d6", "d7")]
            got_ctor = [a.strip() for a in m.group(1).split(",")] if m else None
            if got_ctor != want_ctor:
                ir_error = f"`{line}`: the LiquidCrystal constructor takes (rs, rw, enable, d4..d7) = {want_ctor}, the firmware passes {got_ctor}"
    else:
        # Core helpers are expressions: check the Arduino call text
        b = dict(shape["binding"])
        cname = {"pin_mode": "pinMode", "digital_write": "digitalWrite", "analog_write": "analogWrite", "digital_read": "digitalRead", "analog_read": "analogRead"}[shape["cls"]]
        second = b.get("mode") or b.get("value")
        want_call = f"{cname}({b['pin']}" + (f", {second})" if second else ")")
        if shape.get("odd_param"):
            if "rv_mask" not in text and "lbl" not in text:
                ir_error = f"`{line}`: the run-time expression {shape['odd_expr']!r} does not reach the firmware"
        elif want_call not in text:
            ir_error = f"`{line}`: expected `{want_call}` in the firmware"
    return {"status": "ok", "text": text, "ir_error": ir_error}


def _work(shape: dict) -> dict:
    for earlier in shape.get("after", []):
        evaluate(earlier)  # same process: whatever the earlier call left behind must not leak into this one
    res = evaluate(shape)
    res["shape"] = shape
    return res


REFUSED = ["~rv_mask & 7", 'lbl.count("x")', "rv_mask if rv_mask in (1, 2) else 3", "[rv_mask][0]"]
SPACED = ['"T 1"', '"T  1"', '" T1"', '"T1 "', '"T1"', '"  "', '" "', '""']


def special_shapes(cls: str, meth: str) -> Iterator[dict]:
    """(a) one numeric argument is an expression the translator cannot express: the call must be rejected;
    (b) string arguments that differ only in blanks, evaluated one after the other in one process;
    (c) a list argument given as a variable that is mutated AFTER the call."""
    base = [sh for sh in shapes(cls, meth) if not sh.get("explicit_default")]
    if not base:
        return
    full = max(base, key=lambda sh: (len(sh["binding"]), -sh["n_pos"]))          # all parameters, keywords
    fullpos = max(base, key=lambda sh: (len(sh["binding"]), sh["n_pos"]))       # all parameters, as positional as possible
    for sh in (full, fullpos):
        for param, val in sh["binding"].items():
            if _is_number(val) and not (cls == "LCD" and meth == "__init__" and param == "i2c_addr"):
                for expr in REFUSED:
                    args = sh["args"].replace(f"{param}={val}", f"{param}={expr}") if f"{param}={val}" in sh["args"] else ", ".join(expr if a.strip() == val else a.strip() for a in sh["args"].split(", "))
                    if args == sh["args"]:
                        continue
                    yield dict(sh, args=args, odd_param=param, odd_expr=expr, pre_lines=['rv_mask = analog_read("A1")', 'lbl = "xx"'], group=sh["group"] + f":odd:{param}:{expr}")
            if val.startswith('"') and param in ("text", "top", "bottom", "label"):
                earlier = []
                for lit in SPACED:
                    args = sh["args"].replace(val, lit, 1)
                    cur = dict(sh, args=args, binding=dict(sh["binding"], **{param: lit}), group=sh["group"] + f":spaced:{param}:{lit}", after=list(earlier))
                    yield cur
                    earlier = (earlier + [dict(cur, after=[])])[-3:]
        # the same call statement as the last one of a block whose earlier statements used every parameter
        if meth not in ("", "__init__"):
            minimal = min(base, key=lambda x: (len(x["binding"]), x["n_pos"]))
            fn, _ = _callable(cls, meth)
            none_defaults = [p.name for p in inspect.signature(fn).parameters.values() if p.default is None and p.name not in minimal["binding"] and p.name not in IGNORED]
            recv = RECV[cls]
            earlier = [f"{recv}.{meth}({full['args']})"] + [f"{RECV[c2]}.{m2}({max(list(shapes(c2, m2)), key=lambda x: len(x['binding']))['args']})" for c2, m2 in (("Led", "blink"), ("Buzzer", "play_tone")) if (c2, m2) != (cls, meth)]
            decls_needed = [DECLS[c2] for c2 in ("Led", "Buzzer") if c2 != cls]
            yield dict(minimal, block_lines=earlier, pre_lines=decls_needed, none_defaults=none_defaults, group=minimal["group"] + ":in-block")
        numeric = [p for p, v in full["binding"].items() if _is_number(v)]
        if len(numeric) >= 2 and meth != "" and not (cls == "LCD" and meth == "__init__"):
            args = full["args"]
            for prm in numeric:
                args = args.replace(f"{prm}={full['binding'][prm]}", f"{prm}=pot8.read()")
            yield dict(full, args=args, binding={k: v for k, v in full["binding"].items() if k not in numeric}, same_call_params=numeric, pre_lines=['pot8 = Potentiometer("A3")'], group=full["group"] + ":same-call")
        # the keyword part handed over as an unpacked mapping (and the positional part as an unpacked list): Python binds
        # exactly as before, so the call is rejected or bound the same
        try:
            call_ast = ast.parse(f"f({sh['args']})", mode="eval").body
        except SyntaxError:
            call_ast = None
        if call_ast is not None and (call_ast.keywords or call_ast.args) and not sh.get("_unpacked_done"):
            pos_txt = [ast.unparse(a) for a in call_ast.args]
            kw_txt = "{" + ", ".join(f'"{k.arg}": {ast.unparse(k.value)}' for k in call_ast.keywords) + "}"
            variants = []
            if call_ast.keywords:
                variants.append(", ".join(pos_txt + ["**" + kw_txt]))
            if call_ast.args:
                variants.append(", ".join(["*[" + ", ".join(pos_txt) + "]"] + [f"{k.arg}={ast.unparse(k.value)}" for k in call_ast.keywords]))
            for vi2, args2 in enumerate(variants):
                yield dict(sh, args=args2, group=sh["group"], unpacked=vi2)
        for param, val in sh["binding"].items():
            if val.startswith("["):
                for post in (["seqv.append(1)"], ["seqv.remove(1)"], ["seqv.append(0)", "seqv.append(1)"]):
                    args = sh["args"].replace(val, "seqv", 1)
                    yield dict(sh, args=args, pre_lines=[f"seqv = {val}"], post_lines=post, expected={param: val}, binding=dict(sh["binding"], **{param: "seqv"}), group=sh["group"] + ":listvar:" + post[0])



def main(tier: str, seed: int, only=None) -> int:
    report = Report(ID, LEVEL, tier, seed)
    all_shapes: List[dict] = []
    per_callable: Dict[str, int] = {}
    global RT_MODE
    for mode in ((False, True, "same") if tier == "thorough" else (False, "same")):
        RT_MODE = mode
        for cls, meth, _, _ in CATALOGUE:
            if only and cls not in only:
                continue
            n0 = len(all_shapes)
            for shp in itertools.chain(shapes(cls, meth), special_shapes(cls, meth) if mode is False else []):
                if mode and not any(_is_rt(v) for v in shp["binding"].values()):
                    continue
                if mode == "same" and shp.get("explicit_default"):
                    continue
                shp["group"] += (":rt" if mode is True else ":same") if mode else ""
                all_shapes.append(shp)
            key_name = (f"{cls}.{meth}" if meth else cls) + ((" [run-time args]" if mode is True else " [variables named like the parameters]") if mode else "")
            per_callable[key_name] = len(all_shapes) - n0
    RT_MODE = False
    groups: Dict[str, Dict[str, List[dict]]] = {}
    results = pipeline.pool().imap_unordered(_work, all_shapes, chunksize=64) if pipeline.WORKERS > 1 else map(_work, all_shapes)
    for res in results:
        shape = res["shape"]
        report.evaluations += 1
        report.outcomes[res["status"]] += 1
        key = explore.history_key(ID, "shape", [(shape["cls"] + "." + shape["meth"], (shape["args"],), {})])
        if res["status"] == "crash":
            report.violation(key, f"{shape['cls']}.{shape['meth']}({shape['args']}): transpiler crashed: {res['detail']}", {"shape": shape})
            continue
        if res["status"] != "ok":
            continue
        report.distinct.add((shape["group"], shape["args"]))
        if res["ir_error"]:
            report.outcomes["misbound"] += 1
            report.violation(key, res["ir_error"], {"shape": shape, "message": res["ir_error"]})
            continue
        # `100` and `100.0` are the same bound value (an explicit default may be spelled either way by the transpiler)
        import re as _re

        groups.setdefault(shape["group"], {}).setdefault(_re.sub(r"\b(\d+)\.0\b(?![\d.eEf])", r"\1", res["text"]), []).append(shape)
    for gname, texts in groups.items():
        if len(texts) > 1:
            ranked = sorted(texts.items(), key=lambda kv: -len(kv[1]))
            majority = ranked[0][1][0]
            for text, members in ranked[1:]:
                for shape in members[:5]:
                    key = explore.history_key(ID, "shape", [(shape["cls"] + "." + shape["meth"], (shape["args"],), {})])
                    report.violation(key, f"{shape['cls']}.{shape['meth']}({shape['args']}) produces different firmware than the equivalent call ({majority['args']})",
                                     {"shape": shape, "reference_shape": majority})
    report.extra_cov["per_callable"] = per_callable
    report.bounds = {"callables": len(per_callable), "keyword_permutations": "all up to 4 keywords; rotations + reversal beyond", "default_subsets": "all up to 4 optional parameters; none/all/singles/all-but-one beyond"}
    for s in all_shapes[:: max(1, len(all_shapes) // 6)][:6]:
        report.add_sample(f"{s['cls']}.{s['meth']}({s['args']})")
    return report.finish(
        rule="every call shape accepted by inspect.signature(host callable).bind for the catalogue of constructors, methods and Core helpers; distinct = distinct accepted (binding, argument text) pairs; oracle = Signature binding vs IR fields + equal firmware for equal bindings",
        assumptions=["host-only parameters (providers, timeout, newline, sleep_func, default_distance) are outside the comparison", "argument values are distinct in-range literals so a mis-binding cannot hide"],
    )


def replay(path: str) -> int:
    data = json.loads(open(path).read())
    shape = data["shape"]
    r1, r2 = evaluate(shape), evaluate(shape)
    if r1.get("text") != r2.get("text"):
        print("REPLAY-DIVERGENCE")
        return 2
    bad = r1["status"] == "crash" or bool(r1.get("ir_error"))
    if not bad and "reference_shape" in data and r1["status"] == "ok":
        ref = evaluate(data["reference_shape"])
        bad = ref["status"] == "ok" and ref["text"] != r1["text"]
    print("replay:", r1["status"], r1.get("ir_error"))
    if bad:
        print(f"VIOLATION property={ID} replay={path}")
        return 1
    return 0
