"""C15 — inputs: button edges, pot reads and ultrasonic ranging behave as documented.

Button: every script shape (declared before the loop / at the top of its body; with / without on_click;
0-2 is_pressed() uses per pass; one or two buttons) is compiled once and run on ALL level sequences of
the stated length (setup sample + one sample per pass).  Potentiometer: read() in every expression
position, all value sequences of length 3 over boundary values, differential with the host class.
Ultrasonic: every call history of depth <= 2 (quick) / 3 (thorough) where each call's environment is one
of 10 echo patterns x 6 clock advances, from clock 0 and from a running clock.
"""
from __future__ import annotations

import itertools
import json
from typing import Dict, Iterator, List, Optional, Sequence, Tuple

from rmc import evidence, observe
from rmc.device import unhex
from rmc.runner import Report
from . import common

ID = "C15"
LEVEL = "model_checking"
MOD = "checks.c15"
PRO = common.PROLOGUE + "from Reduino.Sensors import Button, Potentiometer, Ultrasonic\nfrom Reduino.Actuators import RGBLed, Servo, Led\n"


# ------------------------------------------------------------------------------------------
# Button
# ------------------------------------------------------------------------------------------
def button_scripts() -> List[dict]:
    out = []
    for where in ("before", "looptop"):
        for handler in (True, False):
            for uses in (0, 1, 2, 3):
                for nb in (1, 2):
                    if nb == 2 and (uses >= 2 or not handler):
                        continue
                    if uses == 3 and where == "looptop":
                        continue  # a helper that uses the button needs it declared before the helper (documented style)
                    defs = []
                    decls = []
                    body = []
                    pins = [7, 12][:nb]
                    for i, pin in enumerate(pins):
                        if handler:
                            defs += [f"def hit{i}():", f'    mon.write("click{i}")']
                            decls.append(f"b{i} = Button({pin}, on_click=hit{i})")
                        else:
                            decls.append(f"b{i} = Button({pin})")
                    body.append('mon.write("pass")')
                    for i in range(nb):
                        if uses >= 1:
                            body.append(f'mon.write(f"p{i}={{b{i}.is_pressed()}}")')
                        if uses == 2:
                            body += [f"if b{i}.is_pressed():", f'    mon.write("q{i}=1")', "else:", f'    mon.write("q{i}=0")']
                        if uses == 3:
                            # is_pressed() inside helpers called later in the pass (after a wait, in a nested loop)
                            defs += [f"def chk{i}():", f"    if b{i}.is_pressed():", f'        mon.write("q{i}=1")', "    else:", f'        mon.write("q{i}=0")',
                                     f"def val{i}():", f"    return b{i}.is_pressed()"]
                            body += ["sleep(5)", f"chk{i}()", "for k in range(2):", f'    mon.write(f"p{i}={{val{i}()}}")', "    sleep(1)", f"chk{i}()"]
                    if uses == 3:
                        # helpers that use a button are defined after its declaration; handlers before it
                        hdefs = [ln for ln in defs if ln.startswith(("def hit", '    mon.write("click'))]
                        src = common.script(decls + [ln for ln in defs if ln not in hdefs], body, prologue=PRO, defs=hdefs)
                    elif where == "before":
                        src = common.script(decls, body, prologue=PRO, defs=defs)
                    else:
                        src = common.script([], decls + body, prologue=PRO, defs=defs)
                    out.append({"where": where, "handler": handler, "uses": uses, "pins": pins, "src": src})
    # two buttons, only the SECOND (alphabetically later) has a handler, and the handler reads the first one: every sample
    # of the pass is taken before any handler runs
    for names in (("b0", "b1"), ("arm", "fire"), ("zz", "aa")):
        first, second = names
        defs = ["def hit1():", '    mon.write("click1")', f'    mon.write(f"p0={{{first}.is_pressed()}}")']
        decls = [f"{first} = Button(7)"] + defs + [f"{second} = Button(12, on_click=hit1)"]
        body = ['mon.write("pass")', f'mon.write(f"p1={{{second}.is_pressed()}}")']
        out.append({"where": "before", "handler": True, "handlers": [False, True], "uses": 1, "pins": [7, 12], "src": common.script(decls, body, prologue=PRO)})
    return out


def gen_button(tier: str) -> Iterator[dict]:
    length = 9 if tier == "thorough" else 7
    for si, sc in enumerate(button_scripts()):
        runs = []
        if len(sc["pins"]) == 1:
            for seq in itertools.product((0, 1), repeat=length):
                runs.append({"passes": length - 1, "dr": {sc["pins"][0]: list(seq)}})
        else:
            half = 5 if tier != "thorough" else 6
            for s0 in itertools.product((0, 1), repeat=half):
                for s1 in itertools.product((0, 1), repeat=half):
                    runs.append({"passes": half - 1, "dr": {sc["pins"][0]: list(s0), sc["pins"][1]: list(s1)}})
        yield {"id": f"B:{si}", "space": "B", "src": sc["src"], "runs": runs, "meta": {k: sc[k] for k in ("where", "handler", "uses", "pins", "handlers") if k in sc}}


def button_monitor(case, run, dr) -> Optional[str]:
    """The sampled signal is what the firmware actually read (digitalRead events), in order."""
    meta = case["meta"]
    pins = meta["pins"]
    passes = run["passes"]
    by_phase: Dict[int, List] = {}
    for ev in dr.events:
        by_phase.setdefault(ev.phase, []).append(ev)
    for i, pin in enumerate(pins):
        prev: Optional[int] = None          # previous sample of the signal (None = nothing sampled yet)
        signal: List[int] = []
        clicks_per_sample: List[int] = []
        for phase in [-1] + list(range(passes)):
            evs = by_phase.get(phase, [])
            reads = [ev for ev in evs if ev.kind == "dr" and int(ev.args[0]) == pin]
            texts = [unhex(ev.args[0]) for ev in evs if ev.kind == "serial"]
            clicks = texts.count(f"click{i}")
            if phase < 0:
                if len(reads) > 1:
                    return f"button pin {pin}: {len(reads)} digitalRead in setup"
                if clicks:
                    return f"button pin {pin}: on_click ran {clicks} times at start-up (in setup)"
                if reads:
                    prev = int(reads[0].args[1])
                    signal.append(prev)
                    clicks_per_sample.append(0)
                continue
            if len(reads) != 1:
                return f"button pin {pin}: {len(reads)} digitalRead in pass {phase} (expected exactly one)"
            sample = int(reads[0].args[1])
            has_handler = meta.get("handlers", [meta["handler"]] * len(pins))[i]
            want = 1 if (has_handler and sample == 1 and prev == 0) else 0
            if clicks != want:
                why = "at start-up" if prev is None else ("while held" if prev == 1 and sample == 1 else "on release" if sample == 0 else "on a press")
                return f"button pin {pin}, sampled signal {signal + [sample]}: on_click ran {clicks} times in pass {phase} ({why}), expected {want}"
            signal.append(sample)
            clicks_per_sample.append(clicks)
            first_user = next((k for k, ev in enumerate(evs) if ev.kind == "serial" and not unhex(ev.args[0]).startswith("click")), None)
            poll_idx = next(k for k, ev in enumerate(evs) if ev is reads[0])
            if first_user is not None and poll_idx > first_user:
                return f"pass {phase}: button {pin} polled after user statements ran"
            for t in texts:
                if t.startswith(f"p{i}=") and t != f"p{i}={sample}":
                    return f"pass {phase}: is_pressed() printed {t!r}, the pass sample is {sample}"
                if t.startswith(f"q{i}=") and t != f"q{i}={sample}":
                    return f"pass {phase}: second is_pressed() saw {t!r}, the pass sample is {sample}"
            prev = sample
        # the host Button driven with the same sampled signal clicks equally often when it starts released
        if meta.get("handlers", [meta["handler"]] * len(pins))[i] and signal and signal[0] == 0:
            # the project's own class (a differential run in this process may have installed a traced subclass
            # under the package name)
            import importlib

            Button = importlib.import_module("Reduino.Sensors.Button").Button

            count: List[int] = []
            it = iter(signal)
            hb = Button(pin, on_click=lambda: count.append(1), state_provider=lambda: next(it))
            for _ in signal:
                hb.is_pressed()
            if len(count) != sum(clicks_per_sample):
                return f"button pin {pin}, sampled signal {signal}: firmware clicked {sum(clicks_per_sample)} times, host Button {len(count)} times"
    return None


# ------------------------------------------------------------------------------------------
# Potentiometer
# ------------------------------------------------------------------------------------------
POT_BODIES = [
    ["mon.write(pot.read())"],
    ["x = pot.read()", "mon.write(x)", "mon.write(x)"],
    ["x = pot.read() + pot.read()", "mon.write(x)"],
    ["pot.read()", "a = pot.read()", "mon.write(a)"],
    ["if pot.read() > 500:", '    mon.write("hi")', "else:", '    mon.write("lo")'],
    ["a = pot.read()", "b = pot.read()", 'mon.write(f"{a},{b}")'],
    ["mon.write(max(pot.read(), 10))"] if False else ["mon.write(pot.read() * 2 - 1)"],
    ["for i in range(2):", "    mon.write(pot.read())"],
    ["v = pot.read() / 4", "mon.write(v)"],
    ["k = 0", "while pot.read() < 600 and k < 3:", "    k += 1", "mon.write(k)"],
    # one read() as the limit of a for loop is ONE analog read, whatever the body does
    ["for i in range(pot.read() // 300):", "    mon.write(i)"],
    ["n = 0", "for i in range(pot.read() % 4):", "    n += pot.read()", "mon.write(n)"],
    ["for i in range(min(pot.read(), 3)):", "    mon.write(pot.read())"],
    ["x = pot.read() if pot.read() > 500 else 0 - pot.read()", "mon.write(x)"],
    ["for j in range(2):", "    nv = j", "    for i in range(pot.read() // 300):", "        mon.write(i)"],
    ["k = 0", "while k < 2:", "    k += 1", "    nw = k", "    for i in range(pot.read() % 4):", "        mon.write(pot.read())"],
    ["try:", "    nt = 1", "    for i in range(pot.read() // 300):", "        mon.write(i)", "except:", "    nt = 0"],
    ["lst = [pot.read(), pot.read()]", "mon.write(lst[0] - lst[1])"],
    # the same read written twice in one statement is two analog reads, also as the arguments of a device call
    ["mon.write(pot.read() - pot.read())"],
    ['mon.write(f"{pot.read()},{pot.read()}")'],
    (["rgbp = RGBLed(9, 10, 11)"], ["rgbp.set_color(pot.read() // 4, pot.read() // 4, 0)", "mon.write(0)"]),
    (["rgbp = RGBLed(9, 10, 11)"], ["rgbp.set_color(pot.read() // 4, 5, pot.read() // 4)", "mon.write(0)"]),
    (["rgbp = RGBLed(9, 10, 11)"], ["rgbp.set_color(pot.read() // 4, pot.read() // 4, pot.read() // 4)", "mon.write(0)"]),
    (["rgbp = RGBLed(9, 10, 11)"], ["rgbp.set_color(red=pot.read() // 4, green=pot.read() // 4, blue=1)", "mon.write(0)"]),
    (["ledp = Led(5)"], ["ledp.set_brightness(pot.read() // 4)", "ledp.set_brightness(pot.read() // 4)", "mon.write(0)"]),
    (["def avg(a, b):", "    return (a + b) // 2"], ["mon.write(avg(pot.read(), pot.read()))"]),
    # the name is bound to a second potentiometer on another pin: reads after that go to the new pin
    (["mon.write(pot.read())", 'pot = Potentiometer("A1")', "mon.write(pot.read())"], ["mon.write(pot.read())"]),
    (["mon.write(pot.read())", 'pot = Potentiometer("A1")'], ["mon.write(pot.read() + 1)", "x = pot.read()", "mon.write(x)"]),
    (["def pick(a, b, c):", "    return a * 2 + b - c"], ["mon.write(pick(pot.read(), pot.read(), pot.read()))"]),
]


def gen_pot(tier: str) -> Iterator[dict]:
    vals = (0, 1, 512, 1023) if tier != "thorough" else (0, 1, 511, 512, 1023)
    for bi, entry in enumerate(POT_BODIES):
        for where in ("before", "looptop"):
            decl, body = ['pot = Potentiometer("A0")'], entry
            if isinstance(entry, tuple):
                if where == "looptop":
                    continue
                decl, body = decl + entry[0], entry[1]
            src = common.script(decl, body, prologue=PRO) if where == "before" else common.script([], decl + body, prologue=PRO)
            runs = [{"passes": 2, "ar": {"A0": list(seq) + [7, 8, 9], "A1": [600 + v // 3 for v in seq] + [17, 18, 19]}} for seq in itertools.product(vals, repeat=3)]
            yield {"id": f"P:{bi}:{where}", "space": "P", "src": src, "runs": runs, "meta": {}}


# ------------------------------------------------------------------------------------------
# Ultrasonic
# ------------------------------------------------------------------------------------------
ECHO_PATTERNS: List[Tuple[int, ...]] = [(58,), (583,), (29999,), (0, 58), (0, 583), (0, 29999), (0, 0, 58), (0, 0, 583), (0, 0, 29999), (0, 0, 0)]
ADVANCES = [0, 1, 59, 60, 61, 1000]
US_SRC = common.script(["us = Ultrasonic(2, 3)"], ["mon.write(us.measure_distance())"], prologue=PRO)


def gen_ultra(tier: str) -> Iterator[dict]:
    depth = 3 if tier == "thorough" else 2
    envs = list(itertools.product(range(len(ECHO_PATTERNS)), ADVANCES))
    chunk: List[dict] = []
    idx = 0
    for t0 in (0, 5000):
        for d in range(1, depth + 1):
            for hist in itertools.product(envs, repeat=d):
                if d == 3 and (hist[0][1] not in (0, 60) or hist[1][1] not in (0, 59, 1000)):
                    continue  # thorough depth 3: first two advances from a reduced set (stated bound)
                pulses: List[int] = []
                for p, _ in hist:
                    pulses += list(ECHO_PATTERNS[p])
                runs_entry = {"passes": d, "t0": t0, "pulse": pulses + [0, 0, 0], "adv": [a for _, a in hist], "hist": [list(h) for h in hist]}
                chunk.append(runs_entry)
                if len(chunk) >= 600:
                    yield {"id": f"U:{idx}", "space": "U", "src": US_SRC, "runs": chunk, "meta": {}}
                    idx += 1
                    chunk = []
    # longer histories over {good echo, three time-outs}: the last good reading is reused for every failed call after it
    for d in (3, 4, 5):
        for hist in itertools.product([(0, 1000), (1, 1000), (9, 1000), (9, 0)], repeat=d):
            pulses = []
            for p, _ in hist:
                pulses += list(ECHO_PATTERNS[p])
            chunk.append({"passes": d, "t0": 0, "pulse": pulses + [0, 0, 0], "adv": [a for _, a in hist], "hist": [list(h) for h in hist]})
            if len(chunk) >= 600:
                yield {"id": f"U:{idx}", "space": "U", "src": US_SRC, "runs": chunk, "meta": {}}
                idx += 1
                chunk = []
    # the millisecond counter is close to the top of its range / rolls over between two calls
    small = [(p, a) for p in (0, 3, 9) for a in (0, 1, 59, 61)]
    for hist in itertools.product(small, repeat=2):
        for wrap in (1, 2, 5, 20, 40, 59, 60, 61, 62, 65, 90, 100, 121, 130, 150, 400):
            pulses = []
            for p, _ in hist:
                pulses += list(ECHO_PATTERNS[p])
            chunk.append({"passes": 2, "t0": 0, "wrap": wrap, "pulse": pulses + [0, 0, 0], "adv": [a for _, a in hist], "hist": [list(h) for h in hist]})
            if len(chunk) >= 600:
                yield {"id": f"U:{idx}", "space": "U", "src": US_SRC, "runs": chunk, "meta": {}}
                idx += 1
                chunk = []
    if chunk:
        yield {"id": f"U:{idx}", "space": "U", "src": US_SRC, "runs": chunk, "meta": {}}


def ultra_monitor(run, dr) -> Optional[str]:
    hist = run["hist"]
    last_good: Optional[float] = None
    by_phase: Dict[int, List] = {}
    for ev in dr.events:
        by_phase.setdefault(ev.phase, []).append(ev)
    prev_trigger_t: Optional[int] = None
    prev_end_t: Optional[int] = None
    prev_counter: Optional[int] = None
    for k, (p, _adv) in enumerate(hist):
        evs = by_phase.get(k, [])
        pattern = ECHO_PATTERNS[p]
        triggers = [ev for ev in evs if ev.kind == "dw" and int(ev.args[0]) == 2 and int(ev.args[1]) == 1]
        pulses = [ev for ev in evs if ev.kind == "pulseIn"]
        want_attempts = next((i + 1 for i, v in enumerate(pattern) if v > 0), 3)
        if len(triggers) > 3:
            return f"call {k}: {len(triggers)} triggers (more than three attempts)"
        if len(triggers) != want_attempts or len(pulses) != want_attempts:
            return f"call {k} with echoes {pattern}: {len(triggers)} triggers / {len(pulses)} echo waits, expected {want_attempts}"
        # spacing ("once the millisecond clock is running": the firmware reads the counter after every echo wait; a
        # reading of exactly 0 - at start-up or at the instant of a roll-over - means "not running yet")
        for trig, pul in zip(triggers, pulses):
            if prev_trigger_t is not None and prev_end_t is not None and prev_end_t > 0 and prev_counter != 0:
                if trig.t - prev_trigger_t < 60:
                    return f"call {k}: sensor triggered at {trig.t} ms, {trig.t - prev_trigger_t} ms after the previous trigger at {prev_trigger_t} ms (clock running)"
            prev_trigger_t = trig.t
            us = int(pul.args[1])
            prev_end_t = pul.t + (us // 1000 if us > 0 else 30)
            pul_pos = next(i for i, ev in enumerate(evs) if ev is pul)
            after = [ev for i, ev in enumerate(evs) if i > pul_pos and ev.kind == "millis"]
            prev_counter = int(after[0].args[0]) if after else None
        good = next((v for v in pattern if v > 0), None)
        if good is not None:
            want = good * 0.0343 / 2.0
            last_good = want
        else:
            want = last_good if last_good is not None else 400.0
        printed = [unhex(ev.args[0]) for ev in evs if ev.kind == "serial"]
        if len(printed) != 1:
            return f"call {k}: {len(printed)} serial lines"
        try:
            got = float(printed[0])
        except ValueError:
            return f"call {k}: printed {printed[0]!r}"
        if abs(got - want) > 0.006 + 1e-4 * want:
            return f"call {k} with echoes {pattern}: distance {got}, expected {want:.3f} (last good {last_good})"
    return None


# ------------------------------------------------------------------------------------------
def judge(case, tr, dev_runs, host_runs):
    if tr.status in ("reject", "syntax"):
        return "violation", f"documented-style script rejected: {tr.error}"
    if tr.status != "ok":
        return "transpile_" + tr.status, tr.error or ""
    if dev_runs is None:
        return "nocompile", "; ".join(case.get("_compile_errors", []))[:300]
    space = case["space"]
    for idx, (run, dr) in enumerate(zip(case["runs"], dev_runs)):
        if not dr.ok:
            return "violation", f"run {idx}: firmware did not run cleanly: {dr.faults[:2]} exit={dr.exit_code}"
        if space == "B":
            err = button_monitor(case, run, dr)
        elif space == "U":
            err = ultra_monitor(run, dr)
        else:
            hr = host_runs[idx]
            if hr.error is not None:
                return "skip_host_" + (hr.error_type or "error"), hr.error or ""
            err = observe.compare(observe.reduce_host(hr.events), observe.reduce_device(dr), check_lcd=False)
        if err:
            return "violation", f"run {idx} inputs={json.dumps({k: v for k, v in run.items() if k != 'hist'}, sort_keys=True)}: {err}"
    return "match", ""


def generate(tier: str, only=None) -> Iterator[dict]:
    if not only or "B" in only:
        yield from gen_button(tier)
    if not only or "P" in only:
        yield from gen_pot(tier)
    if not only or "U" in only:
        yield from gen_ultra(tier)


def main(tier: str, seed: int, only=None) -> int:
    report = Report(ID, LEVEL, tier, seed)
    runs_total = 0

    def note(rec):
        pass

    cases = list(generate(tier, only))
    runs_total = sum(len(c["runs"]) for c in cases)
    # host runs are only needed for the potentiometer space
    cases += common.witness_cases(report)
    pot = [c for c in cases if c["space"] == "P"]
    others = [c for c in cases if c["space"] != "P"]
    common.drive(report, MOD, others, opts={"host": False}, batch_size=4, bad=("violation", "nocompile", "transpile_crash", "transpile_timeout"), include_witnesses=False)
    common.drive(report, MOD, pot, opts={"host": True}, batch_size=4, bad=("violation", "nocompile", "transpile_crash", "transpile_timeout"), include_witnesses=False)
    report.transitions = runs_total
    report.traces_validated = runs_total
    report.extra_cov["firmware_runs"] = runs_total
    for i in range(runs_total):
        pass
    report.states.update(("run", i) for i in range(min(runs_total, 200000)))
    report.bounds = {"button": "24 script shapes x all level sequences of length 7 (quick) / 9 (thorough); two buttons: all pairs of sequences of length 5/6",
                     "potentiometer": "10 expression positions x 2 declaration positions x all 3-value sequences over 4-5 boundary values",
                     "ultrasonic": "all call histories of depth <= 2 (quick) / 3 with reduced advances (thorough) over 10 echo patterns x 6 clock advances, clock starting at 0 and at 5000 ms"}
    report.add_sample({"button_script": button_scripts()[1]["src"].splitlines()[7:], "signal": [0, 1, 1, 0, 1, 0, 0]})
    report.add_sample({"ultrasonic_history": [[3, 59], [9, 0]], "meaning": "[echo pattern index, ms since previous call]"})
    return report.finish(
        rule="each firmware is run on every input sequence of the stated bounds; monitors: one sample per pass, clicks == rising edges of the sampled signal, is_pressed == pass sample, host Button agreement; analog reads flow through (differential); ultrasonic attempts/fallback/60 ms spacing; states = firmware executions",
        assumptions=evidence.COMMON_ASSUMPTIONS + ["pulseIn() returning 0 consumes its 30 ms timeout on the virtual clock", "event timestamps have millisecond resolution"],
    )


def replay(path: str) -> int:
    data = json.loads(open(path).read())
    host = data["case"].get("space") == "P"
    return common.replay_program(ID, MOD, path, opts={"host": host}, bad=("violation", "nocompile"))
