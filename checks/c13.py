"""C13 — board registry validation is exact; project files round-trip.

Complete products: (platforms + near misses) x (all registered boards + per-board near misses) for
validate_platform_board; write_project for every board x port alphabet x all library lists of length
<= 3 x source kinds, read back with configparser / bytes / directory listing against a sentinel tree.
"""
from __future__ import annotations

import configparser
import hashlib
import itertools
import json
import os
import shutil
import tempfile
from pathlib import Path
from typing import List, Optional

from rmc import explore
from rmc.runner import Report

ID = "C13"
LEVEL = "exploration"
ROOT = Path(__file__).resolve().parent.parent


def _pio():
    from Reduino.toolchain import pio

    return pio


def _fresh(text):
    """an equal string that is a different object (not interned, not the registry's key)"""
    if not isinstance(text, str) or len(text) < 2:
        return text
    return "".join(list(text))


def _forms(libs):
    """the same library list handed over as every kind of iterable the signature allows"""
    if libs is None:
        return [("list", None)]
    return [("list", list(libs)), ("tuple", tuple(libs)), ("iterator", iter(list(libs))), ("generator", (x for x in list(libs))), ("map", map(str, list(libs))),
            ("dict-keys", dict.fromkeys(libs).keys()), ("filter", filter(lambda x: True, list(libs)))]


def board_variants(board: str) -> List[str]:
    out = {board.upper(), board.lower(), board.swapcase(), board + " ", " " + board, board + "x", "x" + board, board[:-1], board[1:], board + "\n", board.replace("_", "-"), board.replace("-", "_")}
    out.discard(board)
    return sorted(out)


def check_validate(report: Report, tier: str) -> dict:
    pio = _pio()
    registry = {p: set(b) for p, b in pio.SUPPORTED_PLATFORMS.items()}
    all_boards = sorted(set().union(*registry.values()))
    # partition: every registered board belongs to exactly one platform
    n = 0
    for b in all_boards:
        n += 1
        owners = [p for p, bs in registry.items() if b in bs]
        if len(owners) != 1:
            report.violation(explore.history_key(ID, "partition", [("board", (b,), {})]), f"board {b!r} is registered for {owners}", {"subject": "partition", "board": b})
    platforms = sorted(registry) + ["", "ATMELAVR", "atmelavr ", " atmelavr", "atmel", "atmelmegaavr2", "atmelavr\n", "espressif32", "Atmelavr", None, "atmelmegaAVR"]
    boards: List[object] = list(all_boards)
    seen = set(all_boards)
    step = 1 if tier == "thorough" else 4
    for b in all_boards[::step]:
        for v in board_variants(b):
            if v not in seen:
                seen.add(v)
                boards.append(v)
    boards += ["", " ", "uno uno", None, "UNO", "Uno", "nano_every ", "unO"]
    accepted = rejected = 0
    for plat in platforms:
        for board in boards:
            n += 1
            want = plat in registry and board in registry[plat]
            try:
                # equal-valued strings built at run time (as read from a file / the command line), never the registry's objects
                pio.validate_platform_board(_fresh(plat), _fresh(board))
                got, exc = True, None
            except ValueError as e:
                got, exc = False, e
            except Exception as e:  # noqa: BLE001
                got, exc = None, e
            if got is None:
                report.violation(explore.history_key(ID, "validate", [("pair", (repr(plat), repr(board)), {})]),
                                 f"validate_platform_board({plat!r}, {board!r}) raised {type(exc).__name__} instead of ValueError", {"subject": "validate", "platform": plat, "board": board})
            elif got != want:
                report.violation(explore.history_key(ID, "validate", [("pair", (repr(plat), repr(board)), {})]),
                                 f"validate_platform_board({plat!r}, {board!r}) {'accepted' if got else 'rejected'}; registry says {'registered' if want else 'not registered for that platform'}",
                                 {"subject": "validate", "platform": plat, "board": board})
            accepted += 1 if got else 0
            rejected += 0 if got else 1
    report.evaluations += n
    report.distinct.update(("v", i) for i in range(len(boards)))
    report.add_sample({"validate": ["atmelavr", "nano_every"], "expected": "reject"})
    return {"pairs": n, "accepted": accepted, "rejected": rejected, "boards": len(all_boards), "board_names_tried": len(boards)}


def _tree_digest(root: Path) -> str:
    h = hashlib.sha256()
    for p in sorted(root.rglob("*")):
        h.update(str(p.relative_to(root)).encode())
        if p.is_file():
            h.update(p.read_bytes())
    return h.hexdigest()


def check_projects(report: Report, tier: str) -> dict:
    pio = _pio()
    boards = sorted(pio.BOARD_TO_PLATFORM)
    ports = ["COM3", "/dev/ttyACM0", "/dev/tty usb 0", "100%", "a;b", "#hash", "k=v", "[x]", "ü-port", "${sys}", "%(x)s", "",
             "usb-{lib_section}-if00", "{port}", "{board}/{platform}", "{env_name}", "{}", "{0}", "{{x}}", "}{",
             "rfc2217://192.168.0.17:4000", "socket://10.0.0.5:2323", "a//b", "/dev//ttyUSB0", "/dev/./tty", "COM3/", "../tty", "C:\\dev\\port"]
    libs_alpha = ["Servo", "LiquidCrystal", "LiquidCrystal_I2C", ""]
    lib_lists: List[Optional[List[str]]] = [None]
    for k in range(0, 4):
        lib_lists += [list(t) for t in itertools.product(libs_alpha, repeat=k)]
    sources = ["// e\u0301 \u2126 \u212b \u212a \u1100\u1161 a\u0323\u0307 a\u0307\u0323 \ufb01 \u00a0 \ufeff \u2028 x\n", "\ufeffvoid setup() {}\n", "caf\u00e9 cafe\u0301\n",
               "void setup() {}\nvoid loop() {}\n", "// héllo ✓ 日本\nvoid setup(){}\n", "line1\r\nline2\r\n", "", "x" * 100_000, "tab\there\n\n\n"]
    base = Path(tempfile.mkdtemp(prefix="c13-", dir=str(ROOT / "build")))
    n = 0
    try:
        (base / "sentinel").mkdir()
        (base / "sentinel" / "keep.txt").write_text("keep")
        (base / "outside.txt").write_text("outside")

        def one(board, port, libs, source, reuse=False, want_libs_of=None, label=""):
            nonlocal n
            n += 1
            platform = _fresh(pio.BOARD_TO_PLATFORM[board])
            board = _fresh(board)
            proj = base / "proj"
            if proj.exists() and not reuse:
                shutil.rmtree(proj)
            proj.mkdir(exist_ok=True)
            before = hashlib.sha256((base / "outside.txt").read_bytes() + (base / "sentinel" / "keep.txt").read_bytes()).hexdigest()
            listing_before = sorted(p.name for p in base.iterdir())
            err = None
            try:
                pio.write_project(proj, source, port=port, platform=platform, board=board, lib_deps=libs)
            except Exception as e:  # noqa: BLE001
                err = f"write_project raised {type(e).__name__}: {e}"
            if err is None:
                files = sorted(str(p.relative_to(proj)) for p in proj.rglob("*") if p.is_file())
                if files != ["platformio.ini", "src/main.cpp"]:
                    err = f"project contains {files}"
            if err is None and (proj / "src" / "main.cpp").read_bytes() != source.encode("utf-8"):
                err = "src/main.cpp is not the given source verbatim"
            if err is None:
                after = hashlib.sha256((base / "outside.txt").read_bytes() + (base / "sentinel" / "keep.txt").read_bytes()).hexdigest()
                if after != before or sorted(p.name for p in base.iterdir()) != listing_before:
                    err = "something outside the project directory changed"
            if err is None:
                cp = configparser.ConfigParser(interpolation=None)
                try:
                    cp.read_string((proj / "platformio.ini").read_text(encoding="utf-8"))
                except configparser.Error as e:
                    err = f"platformio.ini does not parse: {e}"
                if err is None:
                    secs = cp.sections()
                    if len(secs) != 1 or not secs[0].startswith("env:") or len(secs[0]) <= 4:
                        err = f"sections {secs}"
                    else:
                        sec = cp[secs[0]]
                        want_libs: List[str] = []
                        for entry in (want_libs_of if want_libs_of is not None else libs) or []:
                            if entry and entry not in want_libs:
                                want_libs.append(entry)
                        got = {k: sec[k] for k in sec}
                        got_libs = got.pop("lib_deps", "").split()
                        want = {"platform": platform, "board": board, "framework": "arduino", "upload_port": port}
                        if got != want:
                            err = f"ini keys {got}, expected {want}"
                        elif got_libs != want_libs:
                            err = f"lib_deps {got_libs}, expected {want_libs}"
                        elif "lib_deps" in sec and not want_libs:
                            err = "empty lib_deps key written"
            if err:
                case = {"board": board, "port": port, "libs": list(want_libs_of) if want_libs_of is not None else libs, "form": label, "source_sha": hashlib.sha256(source.encode()).hexdigest()[:12], "source_len": len(source)}
                report.violation(explore.history_key(ID, "project", [("case", (json.dumps(case, sort_keys=True),), {})]), f"write_project {case}: {err}", {"subject": "project", **case, "source": source[:2000]})

        board_step = 1 if tier == "thorough" else 3
        for board in boards[::board_step]:
            for port in (ports if tier == "thorough" else ports[:5]):
                one(board, port, ["Servo"], sources[0])
        special_boards = [b for b in boards if any(ch in b for ch in "-.")][:6] + ["uno", "nano_every"]
        for board in special_boards:
            for port in ports:
                for libs in lib_lists:
                    one(board, port, libs, sources[0]) if (tier == "thorough" or port in ports[:3] or libs is None) else None
        for port in ports:
            for libs in (None, ["Servo"], ["Servo", "LiquidCrystal"]):
                one("uno", port, libs, sources[3])
        # library entries that share a prefix / differ only in a version pin, scope or URL: all lists of length <= 3
        rich_alpha = ["Servo", "Servo@^1.2.1", "Servo@1.0.0", "servo", "@scope/pkg", "@other/pkg", "owner/Servo", "Lib=https://example.org/lib.git", "https://example.org/lib.git#v1", ""]
        for k in range(0, 4 if tier == "thorough" else 3):
            for libs in itertools.product(rich_alpha, repeat=k):
                one("uno", "COM3", list(libs), sources[0])
        if tier != "thorough":
            for libs in itertools.product(rich_alpha[:6], repeat=3):
                one("uno", "COM3", list(libs), sources[0])
        # the same library list as list / tuple / one-shot iterator / generator / map / dict view / filter: same file
        for libs in [[], ["Servo"], ["", "Servo"], ["Servo", ""], ["", "Servo", "LiquidCrystal", "Servo"], ["Servo", "LiquidCrystal"], ["LiquidCrystal", "Servo", "Servo"], ["", ""], ["Servo", "Servo"],
                     ["A", "B", "C", "A", "", "B"]]:
            for form_name, form in _forms(libs):
                one("uno", "COM3", form, sources[3], want_libs_of=libs, label=f"lib_deps given as {form_name}")
        # project directories whose spelling mentions the home directory / the environment / has blanks: the files are
        # created in exactly the directory given (relative to the cwd), never anywhere else
        cwd0, home0 = os.getcwd(), os.environ.get("HOME")
        sandbox = base / "cwd"
        fake_home = base / "home"
        sandbox.mkdir()
        fake_home.mkdir()
        try:
            os.chdir(sandbox)
            os.environ["HOME"] = str(fake_home)
            for rel in ("blink", "~", "~/blink", "~root/blink", "$HOME/blink", "${HOME}", "a b/c d", "./x/../y", "%TEMP%/p", "~~", ".hidden/p", "x/~/y"):
                n += 1
                target_dir = Path(rel)
                err = None
                try:
                    pio.write_project(target_dir, sources[3], port="COM3", platform="atmelavr", board="uno", lib_deps=["Servo"])
                except Exception as e:  # noqa: BLE001
                    err = f"raised {type(e).__name__}: {e}"
                if err is None:
                    want_files = sorted(str((sandbox / rel / f)) for f in ("platformio.ini", "src/main.cpp"))
                    got_files = sorted(os.path.join(sandbox, os.path.relpath(str(p), str(sandbox))) for p in sandbox.rglob("*") if p.is_file())
                    norm = lambda xs: sorted(os.path.normpath(x) for x in xs)
                    if norm(got_files) != norm(want_files):
                        err = f"files created: {norm(got_files)}, expected {norm(want_files)}"
                    elif any(fake_home.iterdir()):
                        err = f"files appeared under $HOME: {[str(p) for p in fake_home.rglob('*')]}"
                if err:
                    report.violation(explore.history_key(ID, "project-dir", [("dir", (rel,), {})]), f"write_project into the relative directory {rel!r}: {err}", {"subject": "project-dir", "dir": rel})
                for child in list(sandbox.iterdir()) + list(fake_home.iterdir()):
                    shutil.rmtree(child, ignore_errors=True) if child.is_dir() else child.unlink()
        finally:
            os.chdir(cwd0)
            if home0 is None:
                os.environ.pop("HOME", None)
            else:
                os.environ["HOME"] = home0
        # histories: regenerate into the SAME project directory (same length / shorter / longer / identical sources)
        # the same text with other line ends: the file on disk is always the source given LAST, byte for byte
        for a_text, b_text in itertools.permutations(["a();\nb();\n", "a();\r\nb();\r\n", "a();\rb();\r", "a();\nb();", "a();\n\nb();\n"], 2):
            one("uno", "COM3", ["Servo"], a_text)
            one("uno", "COM3", ["Servo"], b_text, reuse=True)
        # a main.cpp left behind by another tool
        for stale in (b"a();\r\nb();\r\n", b"\xff\xfe not utf-8", b""):
            proj0 = base / "proj"
            if proj0.exists():
                shutil.rmtree(proj0)
            (proj0 / "src").mkdir(parents=True)
            (proj0 / "src" / "main.cpp").write_bytes(stale)
            (proj0 / "platformio.ini").write_bytes(b"[env:old]\nboard = old\n")
            one("uno", "COM3", None, "a();\nb();\n", reuse=True)
        variants = ["pinMode(12, OUTPUT); delay(500);\n", "pinMode(13, OUTPUT); delay(250);\n", "pinMode(13, OUTPUT); delay(25);\n", "é" * 10 + "\n", "è" * 10 + "\n", "ab" * 10 + "\n", ""]
        for first, second in itertools.product(variants, repeat=2):
            one("uno", "COM3", None, first)
            one("uno", "COM4", ["Servo"], second, reuse=True)
        for source in sources:
            for libs in (None, [], ["Servo", "Servo", "", "LiquidCrystal"]):
                one("uno", "COM3", libs, source)
                one("nano_every", "ü-port", libs, source, reuse=True)  # existing project directory is overwritten
    finally:
        shutil.rmtree(base, ignore_errors=True)
    report.evaluations += n
    report.distinct.update(("p", i) for i in range(n))
    report.add_sample({"write_project": {"board": "digispark-tiny", "port": "100%", "libs": ["Servo", "", "Servo"]}})
    return {"projects": n, "lib_lists": len(lib_lists), "ports": len(ports)}


def main(tier: str, seed: int, only=None) -> int:
    (ROOT / "build").mkdir(exist_ok=True)
    report = Report(ID, LEVEL, tier, seed)
    stats = {"validate": check_validate(report, tier), "projects": check_projects(report, tier)}
    report.extra_cov["parts"] = stats
    report.bounds = {"validate": "11 platform names x (all registered boards + 12 near-miss spellings of every board (thorough) / every 4th board (quick))",
                     "projects": "every board (thorough) / every 3rd (quick) x ports; 8 boards x 12 ports x all library lists of length <= 3 over {Servo, LiquidCrystal, LiquidCrystal_I2C, ''}; 6 source kinds"}
    return report.finish(
        rule="full products of the stated grids; the oracle is the registry table itself (membership), configparser(interpolation=None) read-back, byte comparison and a sentinel tree",
        assumptions=["port strings have no leading/trailing whitespace and no line breaks (an INI value cannot carry them)", "the registry tables SUPPORTED_PLATFORMS are the definition of 'registered'"],
    )


def replay(path: str) -> int:
    report = Report(ID, LEVEL, "thorough", 0)
    data = json.loads(open(path).read())
    if data.get("subject") in ("project", "project-dir"):
        check_projects(report, "thorough")
    else:
        check_validate(report, "thorough")
    hit = [v for v in report.violations if v["key"] == data.get("key")]
    if hit:
        print(f"VIOLATION property={ID} replay={path}")
        return 1
    print("replay: holds")
    return 0
