"""C06 — accepted scripts always yield well-formed, compilable Arduino C++.

(a) Feature product: every pair (quick) / triple (thorough) of ~50 language and device features (list /
    len helpers, f-strings, helper functions calling devices / later helpers / the ultrasonic routine,
    variables first assigned in if / for / while / try with int / float / str values in setup, in the
    main loop and inside helpers, every device kind declared before the loop or at the top of its body,
    LCD animation, try/except, tuple assignment ...).  Every accepted program must compile against the
    mock core, define exactly one setup() and one loop(), and include the header of every library class
    it instantiates.
(b) String literals: every string of length <= 2 over printable ASCII plus non-ASCII code points, in
    mon.write("..."), in f-string literal parts and as LCD text: compiled AND run, printed bytes / cells
    compared with CPython.
"""
from __future__ import annotations

import itertools
import json
import re
from typing import Dict, Iterator, List, Optional, Sequence, Tuple

from rmc import evidence, observe, pipeline
from rmc.runner import Report
from . import common

ID = "C06"
LEVEL = "exploration"
MOD = "checks.c06"

PRO = (
    "from Reduino import target\n"
    'target("COM3")\n'
    "from Reduino.Actuators import Led, RGBLed, Servo, DCMotor, Buzzer\n"
    "from Reduino.Sensors import Button, Potentiometer, Ultrasonic\n"
    "from Reduino.Displays import LCD\n"
    "from Reduino.Communication import SerialMonitor\n"
    "from Reduino.Core import analog_read, digital_read, pin_mode, digital_write, analog_write, OUTPUT, HIGH, LOW\n"
    "from Reduino.Utils import sleep\n"
    "mon = SerialMonitor(9600)\n"
    'a = analog_read("A0")\n'
)


def F(name, defs=(), setup=(), loop=(), loop_decl=()):
    return {"name": name, "defs": list(defs), "setup": list(setup), "loop": list(loop), "loop_decl": list(loop_decl)}


def features() -> List[dict]:
    fs = [
        F("list", setup=["items = [1, 2, 3]", "items.append(4)"], loop=["mon.write(items[0] + items[-1])", "items.append(a)"]),
        F("list_rt", setup=["ls = [a, 2]"], loop=["mon.write(len(ls))", "ls.remove(2)"]),
        F("listcomp", setup=["sq = [i * i for i in range(4)]"], loop=["mon.write(sq[2])"]),
        F("strlist", setup=['names = ["ab", "cd"]'], loop=["mon.write(names[1])"]),
        F("floatlist", setup=["fl = [1.5, 2.5]"], loop=["mon.write(fl[0] + 1)"]),
        F("floatlist_append", setup=["fla = [1.5, 2.5]", "fla.append(3.5)"], loop=["fla.append(a)", "fla.append(a * 0.5)", "fla.remove(1.5)", "mon.write(fla[-1])"]),
        F("strlist_append", setup=['sla = ["ab", "cd"]', 'sla.append("q")'], loop=["sla.append(str(a))", 'sla.remove("ab")', "mon.write(sla[-1])"]),
        F("getter_vars", setup=["gm = DCMotor(56, 57, 58)", "gb = Buzzer(59)"], loop=["gsp = gm.get_speed()", "gmo = gm.get_mode()", "gfr = gb.get_frequency()", "ginv = gm.is_inverted()", "mon.write(gmo)", "mon.write(gsp + gfr)"]),
        F("len_str", setup=['txt = "abc"', "wl = str(a)"], loop=["mon.write(len(txt) + len(wl))"]),
        F("fstring", loop=['mon.write(f"v={a}:{1.5}:{a + 1}|")']),
        F("strops", setup=['s0 = "x"'], loop=["s0 = s0 + str(a)", "mon.write(s0)", 's1 = "lit" + str(a) + "!"', "mon.write(s1)"]),
        F("fn_dev", defs=["def blink_it(n):", "    led0.on()", "    sleep(n)", "    led0.off()", "    return n + 1"], setup=["led0 = Led(13)"], loop=["x1 = blink_it(2)", "mon.write(x1)"]),
        # a caller defined ABOVE a callee that is used with several, mutually inconvertible signatures
        F("fn_forward_overloads", defs=["def fwd_caller(n):", '    fwd_show("text")', "    fwd_show(n)", "    fwd_show(n * 0.5)", "def fwd_show(v):", "    mon.write(v)"], setup=["fwd_caller(a)"], loop=["fwd_caller(2)"]),
        F("fn_forward_overloads_ret", defs=["def fwd_pick(n):", '    return fwd_id("t") + str(fwd_id(n))', "def fwd_id(v):", "    return v"], setup=["mon.write(fwd_pick(a))"]),
        # one name lifted out of blocks in different scopes with different types
        F("prom_name_reuse", defs=["def lab(n):", "    if n > 2:", '        pv = "high"', "    else:", '        pv = "low"', "    return pv"], setup=["if a == 0:", "    lim9 = 10", "else:", "    lim9 = 20", "mon.write(lab(a))"],
          loop=["for k9 in range(3):", "    pv = k9 * a", "mon.write(pv)", "mon.write(lim9)"]),
        F("prom_name_reuse_try", defs=["def lab2(n):", "    try:", "        pw = 1.5", "    except:", "        pw = 2.5", "    return pw"], setup=["if a == 0:", "    lim8 = 1", "else:", "    lim8 = 2", "mon.write(lab2(a))"],
          loop=["kw = 0", "while kw < 2:", "    kw += 1", '    pw = "s" + str(kw)', "mon.write(pw)"]),
        F("fn_later", defs=["def first(v):", "    return second(v) + 1", "def second(v):", "    return v * 2"], loop=["mon.write(first(a))"]),
        F("fn_ultra", defs=["def dist():", "    return us0.measure_distance()"], setup=["us0 = Ultrasonic(26, 27)"], loop=["mon.write(dist())"]),
        F("fn_str", defs=["def tag(v):", '    return "t" + str(v)'], loop=["mon.write(tag(a))"]),
        F("fn_float", defs=["def half(v):", "    return v / 2"], loop=["hv = half(a)", "mon.write(hv)"]),
        F("fn_void", defs=["def show(v):", "    mon.write(v)"], loop=["show(a)", 'show("s")'] if False else ["show(a)"]),
        F("fn_two_sigs", defs=["def addf(p, q):", "    return p + q"], loop=["mon.write(addf(1, 2))", "mon.write(addf(1.5, a))"]),
        F("fn_branch_ret", defs=["def sel(v):", "    if v > 2:", "        return 1.5", "    return 2"], loop=["mon.write(sel(a))"]),
        F("fn_local_prom", defs=["def acc(n):", "    for i in range(n):", "        tot = i * 1.5", "        lbl = \"k\"", "    return n"], loop=["mon.write(acc(2))"]),
        F("fn_global", defs=["def bump():", "    global cnt", "    cnt = cnt + 1"], setup=["cnt = 0"], loop=["bump()", "mon.write(cnt)"]),
        F("two_hoisted_loops", loop=["n1 = a", "for i in range(n1):", "    n1 = n1 - 1", "for i in range(n1 + 2):", "    n1 = n1 + 1", "for i in range(abs(a - 9)):", "    mon.write(i)", "    a = a + 0"]),
        F("two_hoisted_loops_fn", defs=["def twice_loop(n2):", "    for i in range(n2):", "        n2 = n2 - 1", "    for i in range(n2 + 1):", "        n2 = n2 + 2", "    return n2"], loop=["mon.write(twice_loop(a))"]),
        F("prom_subset_if", loop=["if a > 1:", "    ps = 1", "elif a > 0:", "    ps = 2", "else:", "    pass", "mon.write(ps)"]),
        F("prom_subset_try", loop=["try:", "    pt2 = a", "except:", "    pass", "mon.write(pt2)"]),
        F("prom_subset_nested", setup=["if a > 1:", "    if a > 2:", "        pn2 = 1", "else:", "    pn2 = 2", "mon.write(pn2)"]),
        F("tuple_mixed", setup=["tm = 1", "tm, tn = 2, a"], loop=["tn = tn + tm", "mon.write(tn)"]),
        F("fn_global_only", defs=["def setgg():", "    global gg", "    gg = 5"], setup=["setgg()"], loop=["gg = gg + 1", "mon.write(gg)"]),
        F("fn_global_loop_first", defs=["def setgl():", "    global gl", "    gl = 1.5"], loop=["setgl()", "gl = 7", "mon.write(gl)"]),
        F("fn_global_before_init", defs=["def setgi():", "    global gi", "    gi = 120"], setup=["setgi()", "gi = 200"], loop=["mon.write(gi)"]),
        F("tuple", setup=["p, q = a, 2"], loop=["p, q = q, p + q", "mon.write(p)"]),
        F("tuple_new_loop", loop=["r1, r2 = a + 1, a * 0.5", "mon.write(r2)"]),
        F("minmax", loop=["mon.write(max(a, 2) + min(a, 3) + abs(a - 5))"]),
        F("ifexp", loop=["ie = a if a > 2 else 0.5", "mon.write(ie)"]),
        F("boolops", loop=["bo = (a > 1) and (a < 9) or not (a == 3)", "mon.write(bo)"]),
        F("while_break", loop=["wk = 0", "while wk < 5:", "    wk += 1", "    if wk == 3:", "        break", "    if wk == 1:", "        continue", "mon.write(wk)"]),
        F("try_bare", loop=["try:", "    tb = a + 1", "except:", "    tb = 0", "mon.write(tb)"]),
        F("core_pins", setup=["pin_mode(7, OUTPUT)"], loop=["digital_write(7, HIGH)", "analog_write(6, a)", "mon.write(digital_read(5))"]),
        F("casts", loop=["mon.write(int(2.5) + float(a))", 'mon.write(int("42") + 1)', "mon.write(str(a) + str(1.5))"]),
        F("lcd_anim", setup=["disp = LCD(i2c_addr=38)", 'disp.animate("scroll", 0, "hello world", speed_ms=100, loop=True)'], loop=['disp.line(1, f"a={a}")']),
        F("lcd_anim_loop", setup=["dl = LCD(i2c_addr=37)"], loop=["if a > 100:", '    dl.animate("blink", 0, "hi", speed_ms=50)']),
        F("lcd_anim_fn", defs=["def start_anim():", '    dh.animate("typewriter", 1, "hello")'], setup=["dh = LCD(i2c_addr=36)", "start_anim()"], loop=['dh.line(0, "x")']),
        F("str_concat_lit", loop=['mon.write("a" + "b")', 'sc = "x" + "y" + str(a)', "mon.write(sc)"]),
        F("lcd_par_all", setup=["lcdp = LCD(rs=30, en=31, d4=32, d5=33, d6=34, d7=35, backlight_pin=10)", "lcdp.glyph(1, [1, 2, 3, 4, 5, 6, 7, 8])"],
          loop=['lcdp.write(1, 0, "x", align="right")', 'lcdp.message("t", "b")', "lcdp.progress(1, a, max_value=50, width=8, label=\"L\", style=\"dot\")", "lcdp.brightness(a)", "lcdp.display(a > 2)", "lcdp.backlight(True)", "lcdp.clear()"]),
        F("buzzer_all", setup=["bz = Buzzer(8)"], loop=["bz.play_tone(a)", "bz.beep(440, on_ms=5, off_ms=5, times=2)", "bz.sweep(100, 200, duration_ms=20, steps=4)", 'bz.melody("siren", tempo=a)', "bz.stop()", "mon.write(bz.get_frequency())"]),
        F("motor_all", setup=["mt = DCMotor(22, 23, 24)"], loop=["mt.set_speed(a / 10)", "mt.backward()", "mt.ramp(0.5, 20)", "mt.run_for(10, 1)", "mt.invert()", "mt.coast()", "mt.stop()", "mon.write(mt.get_mode())", "mon.write(mt.get_applied_speed())"]),
        F("rgb_all", setup=["rgb = RGBLed(44, 45, 46)"], loop=["rgb.set_color(a, 2, 3)", "rgb.on()", "rgb.fade(1, 2, 3, 20, 4)", "rgb.blink(1, 2, 3, times=2, delay_ms=5)", "rgb.off()"]),
        F("led_all", setup=["ld = Led(12)"], loop=["ld.set_brightness(a)", "ld.blink(5, times=2)", "ld.fade_in(50, 1)", "ld.fade_out(step=50, delay_ms=1)", "ld.flash_pattern([1, 0, 128], 2)", "ld.toggle()", "mon.write(ld.get_state())", "mon.write(ld.get_brightness())"]),
        F("servo_setup", setup=["sv = Servo(9, min_angle=10, max_angle=170)"], loop=["sv.write(a)", "sv.write_us(1500)", "mon.write(sv.read() + sv.read_us())"]),
        F("button_cb", defs=["def on_hit():", '    mon.write("hit")'], setup=["btn = Button(25, on_click=on_hit)"], loop=["if btn.is_pressed():", '    mon.write("p")']),
        F("pot", setup=['pot = Potentiometer("A1")'], loop=["mon.write(pot.read())"]),
        F("ultra", setup=["us1 = Ultrasonic(28, 29)"], loop=["ud = us1.measure_distance()", "mon.write(ud)"]),
        F("serial_read", loop=["line_in = mon.read()", "mon.write(line_in)"]),
        # devices declared at the top of the loop body (hoistable kinds)
        F("led_loop", loop_decl=["ll = Led(11)"], loop=["ll.toggle()"]),
        F("rgb_loop", loop_decl=["rl = RGBLed(47, 48, 49)"], loop=["rl.on(1, 2, 3)"]),
        F("servo_loop", loop_decl=["sl = Servo(6)"], loop=["sl.write(30)"]),
        F("motor_loop", loop_decl=["ml = DCMotor(50, 51, 52)"], loop=["ml.set_speed(1)"]),
        F("button_loop", loop_decl=["bl = Button(53)"], loop=["mon.write(bl.is_pressed())"]),
        F("pot_loop", loop_decl=['pl = Potentiometer("A2")'], loop=["mon.write(pl.read())"]),
        F("ultra_loop", loop_decl=["ul = Ultrasonic(54, 55)"], loop=["mon.write(ul.measure_distance())"]),
    ]
    # f-strings: every kind of first component x what follows it
    firsts = {"lit": "{'x'}", "cond": "{'ON' if a > 2 else 'OFF'}", "svar": "{txt}", "num": "{a}", "flt": "{1.5}", "call": "{tagf(a)}", "text": "t", "concat": "{txt + 'z'}", "strcall": "{str(a)}", "bool": "{a > 2}"}
    follows = {"none": "", "text": " now", "num": "{a}", "str": "{txt}", "cond": "{'p' if a > 2 else 'q'}"}
    for fk, fv in firsts.items():
        for gk, gv in follows.items():
            fs.append(F(f"fstr_{fk}_{gk}", defs=["def tagf(v):", '    return "t" + str(v)'] if fk == "call" else [], setup=['txt = "abc"'], loop=[f'mon.write(f"{fv}{gv}")', f'fsv = f"{fv}{gv}"', "mon.write(fsv)"]))
    # variables first assigned inside a construct, every construct x value type x phase
    vals = {"int": ("a + 1", "0"), "float": ("a * 0.5", "1.5"), "str": ('"s" + str(a)', '"z"'), "bool": ("a > 2", "False")}
    for typ, (v1, v2) in vals.items():
        for phase in ("setup", "loop"):
            tag = f"{typ}_{phase}"
            bodies = {
                f"prom_if_{tag}": [f"if a > 1:", f"    pi_{tag} = {v1}", "else:", f"    pi_{tag} = {v2}", f"mon.write(pi_{tag})"],
                f"prom_for_{tag}": ["for i in range(2):", f"    pf_{tag} = {v1}", f"mon.write(pf_{tag})"],
                f"prom_while_{tag}": [f"kw_{tag} = 0", f"while kw_{tag} < 2:", f"    kw_{tag} += 1", f"    pw_{tag} = {v1}", f"mon.write(pw_{tag})"],
                f"prom_try_{tag}": ["try:", f"    pt_{tag} = {v1}", "except:", f"    pt_{tag} = {v2}", f"mon.write(pt_{tag})"],
                f"prom_nested_{tag}": ["for i in range(2):", "    if i == 1:", f"        pn_{tag} = {v1}", f"        mon.write(pn_{tag})"],
            }
            for name, body in bodies.items():
                fs.append(F(name, setup=body if phase == "setup" else [], loop=body if phase == "loop" else []))
    return fs


def assemble(feats: Sequence[dict], main_loop: bool = True, late_defs: bool = False) -> str:
    defs = [ln for f in feats for ln in f["defs"]]
    setup = [ln for f in feats for ln in f["setup"]]
    loop_decl = [ln for f in feats for ln in f["loop_decl"]]
    loop = [ln for f in feats for ln in f["loop"]]
    if late_defs:
        setup, defs = setup + defs, []
    if main_loop:
        return common.script(setup, loop_decl + loop + ["sleep(1)"], prologue=PRO, defs=defs)
    return common.script(setup + loop, None, prologue=PRO, defs=defs)


def gen_features(tier: str) -> Iterator[dict]:
    fs = features()
    for f in fs:
        yield {"id": f"F1:{f['name']}", "space": "F", "src": assemble([f]), "runs": [{"passes": 1, "ar": {"A0": [4], "A1": [5], "A2": [6]}, "pulse": [583]}], "feats": [f["name"]]}
        if not f["loop_decl"]:
            yield {"id": f"F1s:{f['name']}", "space": "F", "src": assemble([f], main_loop=False), "runs": [{"passes": 0, "ar": {"A0": [4], "A1": [5]}, "pulse": [583]}], "feats": [f["name"]]}
        if f["defs"]:
            yield {"id": f"F1d:{f['name']}", "space": "F", "src": assemble([f], late_defs=True), "runs": [{"passes": 1, "ar": {"A0": [4], "A1": [5], "A2": [6]}, "pulse": [583]}], "feats": [f["name"]]}
    for f, g in itertools.combinations(fs, 2):
        if f["name"].startswith("fstr_") and g["name"].startswith("fstr_"):
            continue  # two f-string forms do not interact: each is paired with every other feature
        if f["defs"] or g["defs"]:
            yield {"id": f"F2d:{f['name']}+{g['name']}", "space": "F", "src": assemble([f, g], late_defs=True), "runs": [{"passes": 1, "ar": {"A0": [4], "A1": [5], "A2": [6]}, "pulse": [583]}], "feats": [f["name"], g["name"]]}
        yield {"id": f"F2:{f['name']}+{g['name']}", "space": "F", "src": assemble([f, g]), "runs": [{"passes": 1, "ar": {"A0": [4], "A1": [5], "A2": [6]}, "pulse": [583]}], "feats": [f["name"], g["name"]]}
    if tier == "thorough":
        core = [f for f in fs if not f["name"].startswith("prom_")] + [f for f in fs if f["name"].startswith("prom_") and ("str_loop" in f["name"] or "float_setup" in f["name"])]
        for trio in itertools.combinations(core, 3):
            yield {"id": "F3:" + "+".join(t["name"] for t in trio), "space": "F", "src": assemble(trio), "runs": [{"passes": 1, "ar": {"A0": [4], "A1": [5], "A2": [6]}, "pulse": [583]}], "feats": [t["name"] for t in trio]}



# -- helper call shapes -----------------------------------------------------------------------------
# (c) one helper, two call sites: every ordered pair of argument expression forms x helper bodies that need a
#     helper template / a typed variant.  The helper template is used ONLY inside the def body.
G_HEAD = ["g = a * 0.5", "fl = [1.5, 2.5]", "li = [3, 4]", 'txt = "abc"', 'names = ["ab", "cd"]']
G_DEFS = ["def half(v):", "    return v / 2"]
G_NUM = ["3", "2.5", "-1.5", "a", "g", "g * 2.5", "a + 1", "g + a", "1.5 if a > 2 else 2.5", "half(a)", "fl[0]", "li[1]", "a / 4", "True", "a > 2", "abs(g)", "max(a, 2)", "int(g)", "float(a)", "-g", "len(txt)"]
G_STR = ['"s"', "txt", "str(a)", 'f"{a}"', 'txt + "x"', "names[1]", "str(g)"]
G_BODIES_NUM = {
    "arith": ["return p + 1"],
    "local": ["q = p * 2", "return q"],
    "show": ["mon.write(p)"],
    "fmt": ['return f"{p}|"'],
    "cond": ["if p > 2:", "    return p", "return 0"],
    "list": ["box = [p, p]", "box.append(p)", "return box[2] + len(box)"],
    "minmax": ["return max(p, 2) + min(p, 1) + abs(p)"],
    "rebind": ["p = p / 4", "return p"],
    "rebind_aug": ["p += 0.5", "return p * 2"],
}
G_BODIES_STR = {
    "len": ["return len(p)"],
    "show": ["mon.write(p)"],
    "concat": ['return p + "!"'],
    "fmt": ['return f"{p}|"'],
    "len_loop": ["n = 0", "for i in range(len(p)):", "    n += 1", "return n"],
}


def gen_calls(tier: str) -> Iterator[dict]:
    run = [{"passes": 1, "ar": {"A0": [4], "A1": [5], "A2": [6]}}]

    def prog(body, e1, e2, void):
        fn = G_DEFS + ["def f(p):"] + common.indent(body)
        if void:
            calls = [f"f({e1})", f"f({e2})"]
        else:
            calls = [f"r1 = f({e1})", "mon.write(r1)", f"mon.write(f({e2}))"]
        return common.script(G_HEAD + calls[:1 if void else 2], calls[(1 if void else 2):], prologue=PRO, defs=fn)

    for bname, body in G_BODIES_NUM.items():
        for e1, e2 in itertools.product(G_NUM, repeat=2):
            yield {"id": f"G:num:{bname}:{e1}|{e2}", "space": "G", "src": prog(body, e1, e2, bname == "show"), "runs": run}
    for bname, body in G_BODIES_STR.items():
        for e1, e2 in itertools.product(G_STR, repeat=2):
            yield {"id": f"G:str:{bname}:{e1}|{e2}", "space": "G", "src": prog(body, e1, e2, bname == "show"), "runs": run}
    for bname in ("show", "fmt"):
        for e1, e2 in itertools.product(G_NUM, G_STR):
            yield {"id": f"G:mix:{bname}:{e1}|{e2}", "space": "G", "src": prog(G_BODIES_STR[bname], e1, e2, bname == "show"), "runs": run}
            yield {"id": f"G:mix:{bname}:{e2}|{e1}", "space": "G", "src": prog(G_BODIES_STR[bname], e2, e1, bname == "show"), "runs": run}

# -- device call arguments --------------------------------------------------------------------------
# (d) every numeric device-call position x argument expression forms that use helper templates / builtins
D_DECLS = ["dled = Led(12)", "drgb = RGBLed(44, 45, 46)", "dsv = Servo(9)", "dm = DCMotor(22, 23, 24)", "dbz = Buzzer(8)", "dlcd = LCD(rs=30, en=31, d4=32, d5=33, d6=34, d7=35, backlight_pin=10)", 'dword = "abc"', "dli = [3, 4]"]
D_POSITIONS = [
    "dled.set_brightness({E})", "dled.blink({E})", "dled.blink(5, times={E})", "dled.fade_in({E})", "dled.fade_out(5, {E})", "dled.flash_pattern([1, 0], {E})",
    "drgb.set_color({E}, 1, 2)", "drgb.on({E})", "drgb.fade(1, 2, 3, {E})", "drgb.fade(1, 2, 3, 10, {E})", "drgb.blink(1, 2, 3, {E})", "drgb.blink(1, 2, 3, 2, {E})",
    "dsv.write({E})", "dsv.write_us({E} + 1000)", "dm.set_speed({E})", "dm.backward({E})", "dm.ramp({E}, 10)", "dm.ramp(1, {E})", "dm.run_for({E}, 1)", "dm.run_for(10, {E})",
    "dbz.play_tone({E})", "dbz.play_tone(440, {E})", "dbz.beep({E})", "dbz.beep(440, times={E})", "dbz.beep(440, on_ms={E})", "dbz.sweep(100, 200, {E})", "dbz.sweep(100, 200, 30, steps={E})", 'dbz.melody("siren", {E})',
    'dlcd.write(int({E}) % 4, 0, "x")', 'dlcd.write(0, int({E}) % 2, "x")', "dlcd.progress(0, {E})", "dlcd.progress(0, 5, max_value={E} + 1)", "dlcd.brightness({E})", 'dlcd.animate("scroll", 0, "t", speed_ms={E})',
    "sleep({E})", "analog_write(6, {E})", "digital_write(7, {E} > 2)",
]
D_FORMS = ["abs(a - 5)", "abs(a) * 10", "min(a, 3)", "max(a, 2) * 2", "len(dword)", "len(dli) + a", "int(a * 0.5)", "a if a > 2 else 3", "dhalf(a)", "dli[0]", "dli[-1] + 1", "float(a)", "a // 2", "a % 7",
           "abs(dhalf(a))", "min(abs(a), max(a, 1))", "-a", "not a", "a > 2", "pot_d.read() // 8", "dm.get_speed() * 10", "dled.get_brightness() // 2"]


def gen_device_args(tier: str) -> Iterator[dict]:
    run = [{"passes": 1, "ar": {"A0": [4], "A1": [5], "A2": [6]}}]
    defs = ["def dhalf(v):", "    return v / 2"]
    for pi, pos in enumerate(D_POSITIONS):
        for fi, form in enumerate(D_FORMS):
            line = pos.replace("{E}", form)
            for placement in ("loop", "helper"):
                if placement == "loop":
                    src = common.script(D_DECLS + ['pot_d = Potentiometer("A1")'], [line, "sleep(1)"], prologue=PRO, defs=defs)
                else:
                    src = common.script(D_DECLS + ['pot_d = Potentiometer("A1")', "def act():", "    " + line, "act()"], ["act()", "sleep(1)"], prologue=PRO, defs=defs)
                yield {"id": f"D:{pi}:{fi}:{placement}", "space": "D", "src": src, "runs": run}


# -- string literals -------------------------------------------------------------------------------
NON_ASCII = ["é", "ß", "日", "€", "😀", "\u00a0", "ÿ"]


# -- identifiers: names that are ordinary in Python but mean something in the generated C++ ------------------------
CPP_WORDS = ("alignas alignof and_eq asm auto bitand bitor bool case catch char char16_t char32_t compl const constexpr const_cast decltype default delete do double "
             "dynamic_cast enum explicit export extern float friend goto inline int long mutable namespace new noexcept not_eq nullptr operator or_eq private protected public register "
             "reinterpret_cast short signed sizeof static static_assert static_cast struct switch template this thread_local throw typedef typeid typename union unsigned using virtual "
             "void volatile wchar_t xor xor_eq").split()
CORE_WORDS = ("setup loop main pinMode digitalWrite digitalRead analogWrite analogRead delay delayMicroseconds millis micros pulseIn tone noTone map constrain min max abs round sq "
              "random randomSeed Serial String Servo HIGH LOW INPUT OUTPUT INPUT_PULLUP LED_BUILTIN A0 A5 byte word boolean PI NULL F DEC HEX").split()
PLAIN_WORDS = "count total value idx speed level state2 flag_a".split()  # control group: must be accepted and compile
NAME_ROLES = {
    "var": lambda n: ([f"{n} = a + 1"], [f"{n} = {n} + 1", f"mon.write({n})", "sleep(3)"]),
    "var_loop_only": lambda n: ([], [f"{n} = a + 2", f"mon.write({n})", "sleep(3)"]),
    "helper": lambda n: ([f"def {n}(v):", "    mon.write(v)", "    return v + 1", f"mon.write({n}(a))"], ["sleep(3)", f"mon.write({n}(1))"]),
    "helper0": lambda n: ([f"def {n}():", "    mon.write(7)", f"{n}()"], ["sleep(3)", f"{n}()"]),
    "param": lambda n: ([f"def fwd({n}):", f"    return {n} + 1", "mon.write(fwd(a))"], ["sleep(3)"]),
    "loopvar": lambda n: ([f"for {n} in range(2):", f"    mon.write({n})"], ["sleep(3)"]),
    "list": lambda n: ([f"{n} = [a, 2]", f"{n}.append(3)", f"mon.write(len({n}))"], [f"mon.write({n}[0])", "sleep(3)"]),
    "device": lambda n: ([f"{n} = Led(13)", f"{n}.on()"], [f"{n}.toggle()", "sleep(3)"]),
    "global_in_helper": lambda n: ([f"{n} = a", "def bump():", f"    global {n}", f"    {n} = {n} + 1", "bump()", f"mon.write({n})"], ["sleep(3)"]),
}


def gen_names(tier: str) -> Iterator[dict]:
    for word in CPP_WORDS + CORE_WORDS + PLAIN_WORDS:
        for role, make in NAME_ROLES.items():
            setup, loop = make(word)
            src = common.script(["a = analog_read(\"A0\")"] + setup, loop, prologue=PRO)
            yield {"id": f"N:{word}:{role}", "space": "N", "src": src, "runs": [{"passes": 2, "ar": {"A0": [4]}}], "must_accept": word in PLAIN_WORDS}


# -- every Python built-in called in the usual forms, every binary operator over every pair of operand kinds ----------
def gen_builtins(tier: str) -> Iterator[dict]:
    import builtins

    names = sorted(n for n in dir(builtins) if callable(getattr(builtins, n)) and not n.startswith("_") and not isinstance(getattr(builtins, n), type(BaseException)) or n in ("int", "float", "bool", "str", "list", "tuple", "dict", "set", "range", "type", "object", "bytes", "map", "zip", "filter", "enumerate", "reversed", "slice", "complex", "frozenset"))
    names = [n for n in dict.fromkeys(names) if not (isinstance(getattr(builtins, n), type) and issubclass(getattr(builtins, n), BaseException))]
    head = ["g = a * 0.5", 'txt = "ab"', "li = [3, 4, 5]"]
    forms = ["v = {N}(a)", "v = {N}(g)", "v = {N}(txt)", "v = {N}(li)", "v = {N}(a, 2)", "v = {N}(a, g)", "v = {N}()", "mon.write({N}(a))", "mon.write({N}(li))", "v = {N}(a) + 1", "v = {N}(li)[0]", "{N}(a)", "if {N}(a):\n    mon.write(1)",
             "v = {N}(a, 2, 3)", "for i in range({N}(a)):\n    mon.write(i)"]
    for n in names:
        for fi, form in enumerate(forms):
            body = form.replace("{N}", n).split("\n")
            tail = ["mon.write(v)"] if body[0].startswith("v = ") else []
            yield {"id": f"B:{n}:{fi}", "space": "N", "src": common.script(head + body + tail, prologue=PRO), "runs": [{"passes": 0, "ar": {"A0": [4]}}], "python_decides": True}


OPERANDS = {"int": "a", "float": "g", "bool": "(a > 2)", "str": "txt", "strlit": '"xy"', "list": "li", "intlit": "3", "floatlit": "2.5", "call": "half(a)", "listitem": "li[1]", "strcall": "str(a)"}


def gen_operators(tier: str) -> Iterator[dict]:
    head = ["g = a * 0.5", 'txt = "ab"', "li = [3, 4, 5]", "def half(v):", "    return v / 2"]
    for op in ("+", "-", "*", "/", "//", "%", "**", "<", "==", "and", "or", "&", "|", "^", "<<", ">>"):
        for (lk, l), (rk, r) in itertools.product(OPERANDS.items(), repeat=2):
            for fi, form in enumerate(("v = {E}\nmon.write(v)", "mon.write({E})", "v = a\nv = {E}\nmon.write(v)")):
                if fi == 2 and (op not in ("+", "*", "%") or lk in ("float", "floatlit", "call") or rk in ("float", "floatlit", "call")):
                    continue  # (a float assigned to an int name is KF-C02-first-assignment-wins' subject)
                body = form.replace("{E}", f"{l} {op} {r}").split("\n")
                yield {"id": f"O:{lk}:{op}:{rk}:{fi}", "space": "N", "src": common.script(head + body, prologue=PRO), "runs": [{"passes": 0, "ar": {"A0": [4]}}], "python_decides": True}
        if op in ("<", "=="):
            # chains over strings: a literal first, in the middle, last; a call in the middle (single-evaluation form)
            texts = {"str": "txt", "strlit": '"m"', "strcall": "str(a)", "fstr": 'f"{a}"'}
            for other in ("!=", op):
                for (k1, t1), (k2, t2), (k3, t3) in itertools.product(texts.items(), repeat=3):
                    body = [f"v = {t1} {op} {t2} {other} {t3}", "mon.write(v)"]
                    yield {"id": f"O:chain:{k1}:{op}:{k2}:{other}:{k3}", "space": "N", "src": common.script(head + body, prologue=PRO), "runs": [{"passes": 0, "ar": {"A0": [4]}}], "python_decides": True}
        if op == "+":
            for ci, cond_expr in enumerate(('("a" if a > 2 else "b")', '("a" if a > 2 else txt)', '(txt if a > 2 else "b")', '("a" if a > 2 else str(a))', '(f"{a}" if a > 2 else "b")')):
                for fi2, form2 in enumerate(("v = {C} + \"c\"", "v = \"c\" + {C}", "v = {C} + txt", "v = {C} + {C}", "mon.write({C} + \"!\")", "v = ({C} + \"c\") + \"d\"")):
                    body = form2.replace("{C}", cond_expr).split("\n") + (["mon.write(v)"] if form2.startswith("v =") else [])
                    yield {"id": f"O:ifexp:{ci}:{fi2}", "space": "N", "src": common.script(head + body, prologue=PRO), "runs": [{"passes": 0, "ar": {"A0": [4]}}], "python_decides": True}
        for (lk, l) in OPERANDS.items():
            if op in ("+", "-", "*", "/", "//", "%", "**", "&", "|", "^", "<<", ">>"):
                for rk in ("intlit", "int", "float", "str"):
                    if lk == "bool" or (lk in ("int", "intlit", "listitem") and (rk == "float" or op in ("/", "**"))):
                        continue  # the variable would change its type: KF-C02-first-assignment-wins' subject
                    body = ["v = " + l, f"v {op}= {OPERANDS[rk]}", "mon.write(v)"]
                    yield {"id": f"O:{lk}:{op}=:{rk}", "space": "N", "src": common.script(head + body, prologue=PRO), "runs": [{"passes": 0, "ar": {"A0": [4]}}], "python_decides": True}


def literal_strings(tier: str) -> List[str]:
    printable = [chr(c) for c in range(32, 127)]
    out = [""] + printable + ["".join(p) for p in itertools.product(printable, repeat=2)]
    out += NON_ASCII + [a + b for a in NON_ASCII[:4] for b in ("x", "\\", '"')]
    out += ["\\n", "\\\\", "C:\\temp\\new", 'say "hi"', "tab\there", "%d %s", "??/", "/* c */", "// c", "a\\", "\\\"", "{}", "{a}", "}}{{", "#include <x>", "'", "\\'"]
    if tier == "thorough":
        specials = ['"', "\\", "'", "%", "{", "}", "?", "/", "*", "#", " ", "a", "0"]
        out += ["".join(p) for p in itertools.product(specials, repeat=3)]
    return list(dict.fromkeys(out))


def _py_lit(s: str) -> str:
    return json.dumps(s, ensure_ascii=False)


def _fstr_lit(s: str) -> str:
    body = s.replace("\\", "\\\\").replace('"', '\\"').replace("{", "{{").replace("}", "}}")
    return 'f"' + body + '{a}"'


def gen_literals(tier: str) -> Iterator[dict]:
    strings = literal_strings(tier)
    pack = 150
    for i in range(0, len(strings), pack):
        chunk = strings[i : i + pack]
        lines = []
        for s in chunk:
            lines.append(f"mon.write({_py_lit(s)})")
            lines.append(f"mon.write({_fstr_lit(s)})")
        yield {"id": f"L:serial:{i}", "space": "L", "src": common.script(lines, None, prologue=PRO), "runs": [{"passes": 0, "ar": {"A0": [7]}}], "strings": chunk}
    ascii_only = [s for s in strings if all(32 <= ord(c) < 127 for c in s)]
    for i in range(0, len(ascii_only), pack):
        chunk = ascii_only[i : i + pack]
        lines = ["lcd = LCD(i2c_addr=39, cols=8, rows=2)"]
        for k, s in enumerate(chunk):
            lines.append(f"lcd.line(0, {_py_lit(s)})")
            lines.append(f'mon.write("#{k}")')
        yield {"id": f"L:lcd:{i}", "space": "L", "src": common.script(lines, None, prologue=PRO), "runs": [{"passes": 0, "ar": {"A0": [7]}}], "strings": chunk}


# -- oracle ------------------------------------------------------------------------------------------
HEADER_FOR = {"Servo": "Servo.h", "LiquidCrystal": "LiquidCrystal.h", "LiquidCrystal_I2C": "LiquidCrystal_I2C.h"}


def structure_errors(cpp: str) -> Optional[str]:
    n_setup = len(re.findall(r"^void setup\(\)\s*\{", cpp, flags=re.M))
    n_loop = len(re.findall(r"^void loop\(\)\s*\{", cpp, flags=re.M))
    if n_setup != 1 or n_loop != 1:
        return f"sketch defines setup() {n_setup} times and loop() {n_loop} times"
    includes = set(re.findall(r"^\s*#\s*include\s*[<\"]([^>\"]+)[>\"]", cpp, flags=re.M))
    if "Arduino.h" not in includes:
        return "Arduino.h is not included"
    for m in re.finditer(r"^\s*(Servo|LiquidCrystal_I2C|LiquidCrystal)\s+[A-Za-z_]\w*\s*(?:\(|;)", cpp, flags=re.M):
        if HEADER_FOR[m.group(1)] not in includes:
            return f"class {m.group(1)} is instantiated but {HEADER_FOR[m.group(1)]} is not included"
    if cpp.count("{") != cpp.count("}") and '"' not in cpp:
        return "unbalanced braces"
    return None


def judge(case, tr, dev_runs, host_runs):
    if tr.status in ("reject", "syntax"):
        if case.get("must_accept"):
            return "violation", f"an ordinary identifier was rejected: {tr.error}"
        return "reject", tr.error or ""
    if tr.status != "ok":
        return "transpile_" + tr.status, tr.error or ""
    err = structure_errors(tr.cpp)
    if err:
        return "violation", err
    if case.get("python_decides") and host_runs and host_runs[0].error is not None:
        # the expression is ill-typed in Python itself (abs("ab"), len(3), [1] - 1): outside the property's domain
        return "skip_host_" + (host_runs[0].error_type or "error"), host_runs[0].error or ""
    if dev_runs is None:
        return "violation", "accepted script does not compile: " + "; ".join(case.get("_compile_errors", []))[:400]
    dr = dev_runs[0]
    if not dr.ok:
        if any("signal 14" in f for f in dr.faults):
            return "skip_device_timeout", ""
        return "violation", f"firmware crashed: {dr.faults[:2]} {dr.sanitizer[:1]} exit={dr.exit_code}"
    if case["space"] in ("L", "N"):
        hr = host_runs[0]
        if hr.error is not None:
            return "skip_host_" + (hr.error_type or "error"), hr.error or ""
        diff = observe.compare(observe.reduce_host(hr.events), observe.reduce_device(dr), check_lcd=True, check_snap=True)
        if diff:
            return "violation", ("string literal not preserved: " if case["space"] == "L" else "firmware and CPython disagree: ") + diff
    return "match", ""


def main(tier: str, seed: int, only=None) -> int:
    report = Report(ID, LEVEL, tier, seed)
    bad = ("violation", "transpile_crash", "transpile_timeout")
    if not only or "F" in only:
        common.drive(report, MOD, gen_features(tier), opts={"host": False}, batch_size=40, bad=bad)
    if not only or "G" in only:
        common.drive(report, MOD, gen_calls(tier), opts={"host": False}, batch_size=40, bad=bad, include_witnesses=False)
    if not only or "D" in only:
        common.drive(report, MOD, gen_device_args(tier), opts={"host": False}, batch_size=40, bad=bad, include_witnesses=False)
    if not only or "N" in only:
        common.drive(report, MOD, gen_names(tier), opts={"host": True}, batch_size=8, bad=bad, include_witnesses=False)
    if not only or "B" in only:
        common.drive(report, MOD, gen_builtins(tier), opts={"host": True}, batch_size=8, bad=bad, include_witnesses=False)
    if not only or "O" in only:
        common.drive(report, MOD, gen_operators(tier), opts={"host": True}, batch_size=8, bad=bad, include_witnesses=False)
    if not only or "L" in only:
        common.drive(report, MOD, gen_literals(tier), opts={"host": True, "host_timeout": 30}, batch_size=2, bad=bad, include_witnesses=False)
    fs = features()
    report.bounds = {"features": len(fs), "combinations": "all singles (with and without a main loop) and all pairs (quick); + all triples of the non-promotion features (thorough)",
                     "string_literals": f"{len(literal_strings(tier))} literals: all printable-ASCII strings of length <= 2, non-ASCII code points, escape-heavy specials" + (" and all triples over 13 special characters" if tier == "thorough" else "")}
    report.add_sample({"features": ["fn_later", "prom_for_str_loop"], "script": assemble([f for f in fs if f["name"] in ("fn_later", "prom_for_str_loop")]).splitlines()[10:]})
    report.add_sample({"literal": 'mon.write("a\\\\")'})
    return report.finish(
        rule="pairwise-complete (thorough: triple-complete on the core) feature product + every short string literal; oracle: accepted => compiles and links against the mock core, one setup()/loop(), headers for instantiated library classes; literals also run and compared with CPython; distinct = distinct firmware texts",
        assumptions=evidence.COMMON_ASSUMPTIONS,
    )


def replay(path: str) -> int:
    data = json.loads(open(path).read())
    host = data["case"].get("space") in ("L", "N")
    return common.replay_program(ID, MOD, path, opts={"host": host, "host_timeout": 30}, bad=("violation", "transpile_crash", "transpile_timeout"))
