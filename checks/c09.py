"""C09 — generated firmware is memory-safe and does not leak across loop() passes.

All list / string histories of length <= 3 (quick) / 4 over a core (thorough) over literals,
comprehensions (ascending, descending, empty ranges), append / remove, indexing incl. negative indices,
copies and re-assignment, string growth and reset, in three placements (all in setup, all in the main
loop, list shared between both), N = 4 passes.  The firmware is built with AddressSanitizer + UBSan and an
interposed allocator; only histories on which CPython raises no IndexError/ValueError are judged.
Oracle: no sanitizer report, no allocator error, values equal CPython's, and whenever CPython's live
list/str data is the same size after two consecutive passes the firmware's live heap bytes are equal too.
"""
from __future__ import annotations

import itertools
import json
from typing import Dict, Iterator, List, Optional, Sequence, Tuple

from rmc import evidence, observe
from rmc.runner import Report
from . import common

ID = "C09"
LEVEL = "model_checking"
MOD = "checks.c09"
PRO = common.PROLOGUE

INITS = [
    ["L = [1, 2, 3]"],
    ["L = [a, a + 1, 2, 2]"],
    ["L = [i for i in range(4)]"],
    ["L = [i * 2 for i in range(1, 6, 2)]"],
    ["L = [i for i in range(9, 0, -2)]"],
    ["L = [i for i in range(5, -1, -1)]"],
    ["L = [i for i in range(3, 3)]", "L.append(5)", "L.append(6)"],
    ["L = [a]"],
]
OPS = [
    ["L.append(7)"],
    ["L.append(x)"],
    ["L.remove(2)"],
    ["L.remove(L[0])"],
    ["x = L[0]"],
    ["x = L[-1]"],
    ["x = L[len(L) - 1]"],
    ["mon.write(L[1])"],
    ["mon.write(len(L))"],
    ["last = L[-1]", "if len(L) > 2:", "    L.remove(last)"],
    ["L.append(x)", "L.remove(x)"],
    ["if len(L) > 3:", "    L.remove(L[0])"],
    ['s = s + "x"'],
    ['s = ""'],
    ["mon.write(s)"],
    ["M = [x, 1]", "mon.write(M[0])"],
    ["T = [i + x for i in range(3)]", "mon.write(T[2])"],
    ["for i in range(len(L)):", "    x = x + L[i]"],
    # 18.. : the appended value lives in the list's own buffer; copies; re-binding; swaps of lists of different
    # length followed by negative indices; lists first bound inside a nested loop; lists returned by a helper
    ["L.append(L[-1])"],
    ["L.append(L[0])"],
    ["K = L", "mon.write(len(K))", "mon.write(K[-1])"],  # the copy is only read (mutation through an alias: KF-C01-list-value-semantics)
    ["L = [x, 2, 2]"],
    ["L = [i + 1 for i in range(2)]"],
    ["W = [9]", "L, W = W, L", "mon.write(L[-1] + x)", "mon.write(W[-1] + x)"],
    ["W2 = [9, 8, 7, 6, 5, 4, 3]", "L, W2 = W2, L", "mon.write(W2[-1] + x)", "mon.write(L[-2] + x)"],
    ["L.append(x)", "reset(len(L))", "mon.write(len(L))"],
    ["L.append(1)", "L.append(2)", "reset2(len(L))", "mon.write(L[-1])"],
    # swaps / rotations where a later target must receive the LONGER list: an index legal for the expected length
    ["W3 = [9, 8, 7, 6, 5, 4, 3]", "W3, L = L, W3", "mon.write(L[6] + x)", "mon.write(L[-7] + x)", "mon.write(len(W3))"],
    ["W4 = [9, 8, 7, 6, 5, 4, 3]", "W5 = [1]", "W5, W4, L = W4, L, W5", "mon.write(W5[6] + x)", "mon.write(W5[-7])", "mon.write(len(W4) + len(L))"],
    ["W6 = [9, 8, 7, 6, 5, 4, 3, 2, 1]", "if len(L) < 9:", "    W6, L = L, W6", "mon.write(L[8] + x)"],
    # and / or used for their value with an index guarded by the left operand
    ["x = len(L) and L[0]", "y2 = (len(L) > 40 and L[40]) or -1", "mon.write(y2)"],
    ["Q = [1]", "Q.remove(1)", "x = (len(Q) and Q[0]) + x", "y3 = (len(Q) > 0 and Q[-1]) or 7", "mon.write(y3)"],
    ["for j in range(2):", "    Z = [j, x]", "    x = Z[0] + Z[-1]"],
    ["for j in range(3):", "    Z2 = [i + j for i in range(3)]", "    mon.write(Z2[1])"],
    ["k = 0", "while k < 2:", "    k += 1", "    Y = [k]", "    Y.append(x)", "    mon.write(Y[-1])"],
    ["H = mk(x)", "mon.write(H[1])", "H.append(3)"],
    # 29.. : an earlier arm appends constants, a LATER sibling arm walks the list by its length; a limit that must be
    # taken once, inside an enclosing loop that also first-assigns a variable; lists whose elements own memory
    ["if x > 5:", "    L.append(7)", "    L.append(8)", "elif x > 0:", "    for i in range(len(L)):", "        mon.write(L[i])", "else:", "    mon.write(L[len(L) - 1])"],
    ["if x < 0:", "    L.append(7)", "    L.append(8)", "    L.append(9)", "else:", "    mon.write(L[len(L) - 1])", "    mon.write(L[-len(L)])"],
    ["M3 = [i * 2 for i in range(len(L))]", "for j in range(1):", "    nv = j", "    for i in range(len(L)):", "        if len(L) < 30:", "            L.append(i)", "        x = x + M3[i]", "mon.write(len(M3))"],
    ["k = 0", "while k < 2:", "    k += 1", "    nw = k", "    for i in range(len(L)):", "        if len(L) < 40:", "            L.append(L[i])"],
    ['N2 = ["x", "y", "z"]', "N = N2", "mon.write(N[0])", "mon.write(len(N))"],
    ["N = labels(x)", "mon.write(N[0])", "mon.write(N[-1])"],
    ['N.append("q")', "mon.write(N[-1])", "mon.write(len(N))"],
    ["NN = N", "mon.write(NN[1])", 'N = ["r", "s"]', "mon.write(NN[1])"],
    # the list changes only through helpers defined before it exists; lengths minus a constant that go negative
    ["if len(L) > 1:", "    drop(L[0])", "for i in range(len(L)):", "    x = x + L[i]"],
    ["grow(1)", "for i in range(len(L)):", "    x = x + L[i]"],
    ["for i in range(len(L) - 4):", "    x = x + L[i]", "j = 0", "while j < len(L) - 5:", "    j += 1", "mon.write(j)"],
    ["if len(L) - 9 < 0:", "    mon.write(1)", "mon.write(len(L) - 9)"],
    # characters of a string by (negative) index
    ["mon.write(s[-1])", "mon.write(s[0])"],
    ["mon.write(s[len(s) - 1])", "mon.write(s[-len(s)])", "ch = s[-1]", "mon.write(ch)"],
]
DEFS = ["def mk(n):", "    return [n, n + 1]", "def labels(n):", '    return ["a" + str(n), "b", "c"]']
# helpers that mutate the sketch list: only defined in the programs that call them (a helper that binds or mutates a name
# makes it a run-time value everywhere, which would keep the transpile-time length tracking out of every other program)
DEFS_MUTATING = ["def drop(v):", "    L.remove(v)", "def grow(v):", "    L.append(v)",
                 # `global` written inside the block that re-binds the list (it applies to the whole function)
                 "def reset(v):", "    if v > 3:", "        global L", "        L = [v]", "def reset2(v):", "    for t in range(1):", "        global L", "        if v > 4:", "            L = [t, v]"]
CORE = [0, 2, 3, 5, 9, 10, 11, 12, 13]
CORE3 = [0, 1, 2, 3, 5, 9, 10, 11, 12, 13, 18, 20, 21, 23, 25, 28, 29, 31, 33, 34, 37, 38, 39]  # thorough: all k = 3 histories over these
OBS = ["mon.write(x)", "mon.write(len(L))", "mon.write(L[0])", "mon.write(L[-1])"]


def build(init_i: int, seq: Sequence[int], placement: str) -> dict:
    init = INITS[init_i]
    ops = [ln for i in seq for ln in OPS[i]]
    head = ['a = analog_read("A0")', "x = a", 's = "s"', 'N = ["ab", "cd"]']
    DEFS = globals()["DEFS"] + (DEFS_MUTATING if any("drop(" in ln or "grow(" in ln or "reset(" in ln or "reset2(" in ln for ln in ops) else [])
    if placement == "setup":
        src = common.script(head + init + ops + OBS, None, prologue=PRO, defs=DEFS)
        passes = 0
    elif placement == "loop":
        src = common.script(head, init + ops + OBS, prologue=PRO, defs=DEFS)
        passes = 4
    else:  # shared: list created in setup, mutated in the loop
        src = common.script(head + init, ops + OBS, prologue=PRO, defs=DEFS)
        passes = 4
    return {"id": f"{init_i}:{placement}:{tuple(seq)}", "src": src, "runs": [{"passes": passes, "ar": {"A0": [2]}}], "placement": placement}


def generate(tier: str, only=None) -> Iterator[dict]:
    n = len(OPS)
    k_full = 2
    for init_i in range(len(INITS)):
        if tier == "thorough":
            seqs = list(itertools.chain.from_iterable(itertools.product(range(n), repeat=r) for r in range(0, k_full + 1)))
            seqs += list(itertools.product(CORE3, repeat=3))
            seqs += list(itertools.product(CORE, repeat=4)) if init_i < 3 else []
        else:
            seqs = list(itertools.chain.from_iterable(itertools.product(range(n), repeat=r) for r in range(0, 2)))
            seqs += list(itertools.product(range(n), repeat=2)) if init_i in (0, 7) else []
            seqs += list(itertools.product(CORE3, repeat=2)) if init_i in (1, 4, 6) else []
            seqs += list(itertools.product(CORE[:6], repeat=3)) if init_i == 0 else []
        seen = set()
        for seq in seqs:
            if seq in seen:
                continue
            seen.add(seq)
            for placement in ("setup", "loop", "shared"):
                if placement == "setup" and len(seq) > 2 and tier != "thorough":
                    continue
                yield build(init_i, seq, placement)


def _live_size(snapshot_vars: dict) -> int:
    total = 0
    for v in snapshot_vars.values():
        if isinstance(v, list):
            total += len(v)
        elif isinstance(v, str):
            total += len(v)
    return total


def judge(case, tr, dev_runs, host_runs):
    if tr.status in ("reject", "syntax"):
        return "reject", tr.error or ""
    if tr.status != "ok":
        return "transpile_" + tr.status, tr.error or ""
    if dev_runs is None:
        return "nocompile", "; ".join(case.get("_compile_errors", []))[:300]
    dr, hr = dev_runs[0], host_runs[0]
    if hr.error is not None:
        return "skip_host_" + (hr.error_type or "error"), hr.error or ""
    if dr.sanitizer:
        return "violation", "sanitizer: " + " | ".join(dr.sanitizer[:2])
    if any(f.startswith("M ") for f in dr.faults):
        return "violation", "allocator: " + "; ".join(dr.faults[:2])
    if not dr.ok:
        return "violation", f"firmware crashed: {dr.faults[:2]} exit={dr.exit_code}"
    diff = observe.compare(observe.reduce_host(hr.events), observe.reduce_device(dr), check_lcd=False)
    if diff:
        return "value_mismatch", diff  # C01's business unless memory is involved; reported separately
    # leak oracle: live list sizes on the CPython side per pass (recorded through the serial lines: len(L) is printed)
    heap = [(ev.phase, int(ev.args[0])) for ev in dr.events if ev.kind == "heap"]
    lens: Dict[int, List[str]] = {}
    for kind, in_pass, _clock, payload, _snap in hr.events:
        if kind == "serial":
            lens.setdefault(in_pass, []).append(str(payload[0]))
    passes = case["runs"][0]["passes"]
    by_phase = dict(heap)
    for p in range(1, passes - 1):
        # same printed observations (x, len(L), ends, string) in consecutive passes => same live data size
        if lens.get(p) == lens.get(p + 1) and p in by_phase and p + 1 in by_phase:
            if by_phase[p] != by_phase[p + 1]:
                return "violation", f"heap grows while the program state is periodic: live bytes after pass {p} = {by_phase[p]}, after pass {p + 1} = {by_phase[p + 1]} (all passes: {[b for _, b in heap]})"
    return "match", ""


def main(tier: str, seed: int, only=None) -> int:
    report = Report(ID, LEVEL, tier, seed)
    common.drive(report, MOD, generate(tier, only), opts={"sanitize": True, "host_timeout": 5.0}, batch_size=40,
                 bad=("violation", "transpile_crash", "transpile_timeout"))
    report.bounds = {"inits": len(INITS), "ops": len(OPS), "sequences": "quick: all k<=1, all k=2 for 2 inits and over a 20-op core for 3 more, k=3 over a 6-op core for 1 init; thorough: all k<=2, k=3 over a 16-op core, k=4 over a 9-op core for 3 inits", "placements": "setup / loop / shared", "passes": 4}
    report.add_sample({"script": build(4, (9, 0), "shared")["src"].splitlines()[6:]})
    return report.finish(
        rule="every history of the bounded alphabet in three placements, firmware built with ASan+UBSan and an interposed allocator, compared with CPython; distinct = distinct firmware texts",
        assumptions=evidence.COMMON_ASSUMPTIONS + ["String uses malloc directly and is not part of the live-byte count (only operator new/delete is)", "'constant live data' is recognised when two consecutive passes print identical observations (x, len, first, last)"],
    )


def replay(path: str) -> int:
    return common.replay_program(ID, MOD, path, opts={"sanitize": True}, bad=("violation",))
